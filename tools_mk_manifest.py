import json
NA = {
 "C03": "differential statement about one (program, database) pair against the SQLite engine; renderer and engine are deterministic, nothing in it depends on a schedule, fault, restart or history of shared state - not a simulation target (property-based/differential testing, excluded by this study)",
 "C04": "relation between two renderings of one tree; pure function of (program, dialect); the history aspects (fresh parameterizer per call, writes confined to the caller's parameterizer) are decided under C02",
 "C05": "pure function of (value, position, dialect): literal escaping; no state, schedule, fault or history",
 "C06": "pure function of one expression tree: parenthesisation; no state, schedule, fault or history",
 "C07": "pure function of (name, emission site, dialect): identifier quoting; no state, schedule, fault or history",
 "C08": "pure function of (program, dialect pair): context propagation down one tree in one render; SqlContext is frozen and per call",
 "C09": "pure function of (limit, offset, ordering, dialect); its call-order aspect is exercised by C13's pagination clause actor",
 "C10": "relation between the stand-alone and embedded rendering of one query; pure function of the program",
 "C11": "pure function of one statement's source shape; its single piece of call-time state (foreign-table flag) is an order dependence decided under C13",
 "C12": "pure function of (term class, position, dialect): alias emission",
 "C14": "deterministic function from a call sequence to accept/reject; no fault, interleaving or shared-state history in it",
 "C16": "pure function of (term/statement, old, new); its receiver-unchanged clause is covered because replace_table is one of the builder methods C01 drives on shared receivers",
 "C17": "algebraic laws of ==/hash over input tuples; its not-changed-by-rendering clause is covered because hash and == are read events in C02's alphabet",
 "C18": "pure function of nine integers and a dialect: interval formatting",
}
import sys
claimed = sys.argv[1:]
TEXT = {
 "C01": ("deterministic simulation: seeded histories of builder/compose calls over a shared, aliased object heap, executed sequentially, with asynchronous exceptions (BaseException and ordinary Exception) injected inside calls, by 2-4 scheduled actor threads (baton passing, sys.monitoring pre-emption, random-walk / PCT / stall / contention schedules), plus a complete crash-point sweep of one builder call per batch and a first pass replaying the stored histories of every repaired defect; oracle = refinement against the linear-rebuild value model, with ablation replay for attribution. Sampling, not proof.", "4 (C01)", "linear-rebuild reference shares library code on a private path; GIL-atomic C calls; the one permitted side effect (automatic alias of a shared un-aliased argument) is recorded and replayed into the model in the autoalias configuration, runs of other configurations in which it hits a shared object are discarded and counted", "seeded simulation of call histories, threads and injected exceptions vs linear-rebuild model"),
 "C02": ("deterministic simulation: seeded histories of read events (get_sql/str/parameterised/hash/==) by 1-4 scheduled actor threads over shared objects, with injected asynchronous exceptions, stalls, faulty leaves, and re-execution in fresh interpreters under other PYTHONHASHSEED values (a difference is attributed to the hash seed or to what the long-lived process executed before, with a minimised prelude as replay); oracle = every completed read equals the linear-rebuild value, reads leave no trace. Sampling, not proof.", "4 (C02)", "as C01; hash values are excluded from cross-process comparison; the harness never passes a set to the API", "seeded simulation of render histories, thread interleavings, faults and hash-seed restarts vs linear-rebuild model"),
 "C13": ("deterministic simulation of delivery order only: clause actors with FIFO call queues, seeded merges (random linear extensions plus adversarial orders); oracle = final observation equal under every merge, same-clause accumulation, and well-formedness riders on every prefix state (bracket/quote balance, clause-order tables, no comment opener, no alias inside predicates/keys/VALUES, sqlite3 prepare); 12 % of the runs apply the dialect-free riders to statements of the general-purpose generator instead (population mode, incl. sub-query text independent of the embedding position). No fault dimension exists for this property.", "4 (C13)", "clause-address table and per-dialect clause-order tables are the harness's; sqlite3 3.40 parser as ground truth for the SQLite rider", "seeded search over delivery orders of commuting builder calls with per-state invariants"),
 "C15": ("deterministic simulation: the C01 heap with duplication events (copy, deepcopy, pickle protocols 0-5, joint duplication, pickle + restart in a fresh interpreter with another hash seed) interleaved with builder calls on both sides; oracle = dup is the identity of the value model (under recorded automatic-alias effects: an independent rebuild of the original as of the dup's log position); bounded termination of every duplication; plus holder-mode histories (a mutable-mode sub-query embedded at one of 17 positions of a parent, the parent duplicated by deepcopy/pickle, the sub-query of one side changed in place; oracle = the untouched side renders as before). Sampling, not proof.", "4 (C15) and section 0 deviation 16", "as C01; cross-process comparison excludes hash values", "seeded simulation of duplication/restart histories vs linear-rebuild model"),
}
checks = []
for p in claimed:
    t, ref, note, tech = TEXT[p]
    checks.append({
        "property_id": p,
        "quick_cmd": f"./check {p} --tier quick",
        "thorough_cmd": f"./check {p} --tier thorough",
        "evidence_file": f"/verif/evidence/{p}.json",
        "replay_cmd_template": "./check replay {path}",
        "engine": "pikasim",
        "level_claimed": {"category": "exploration", "text": t, "design_ref": "DESIGN.md section " + ref},
        "level_note": note,
        "technique": tech,
    })
na = [{"property_id": k, "reason": v} for k, v in NA.items()]
for p in ("C01", "C02", "C13", "C15"):
    if p not in claimed:
        na.append({"property_id": p, "reason": "TEMPORARY: simulation check under construction in this round (applicable; see DESIGN.md section 4)"})
m = {
 "version": 1,
 "setup_cmd": "/venv/bin/python -c \"import sys; assert sys.version_info >= (3, 12), 'needs sys.monitoring'\" && ./check selftest import",
 "hooks": {"guard": "PYPIKA_TORTOISE_VERIF", "enable": "none needed: pre-emption and fault points come from sys.monitoring (PEP 669) on unmodified library code; checks import /repo's working tree directly (PIKASIM_REPO overrides the path)", "baseline_off_cmd": "cd /repo && /venv/bin/python -m pytest -ra -q -p no:cacheprovider --timeout=900", "source_commits": [], "add_only": True},
 "engines": [{"name": "pikasim", "path": "/verif/pikasim", "serves_properties": claimed, "kind_free_text": "deterministic simulator: JSON program language over a shared object heap, seeded generator, baton-passing thread scheduler with sys.monitoring pre-emption and exception injection, linear-rebuild reference model, ddmin slicing, replay files"}],
 "checks": checks,
 "not_applicable": sorted(na, key=lambda x: x["property_id"]),
 "notes": "All checks: /venv/bin/python 3.12 (sys.monitoring). Exit 0 held / 1 VIOLATION / 2 harness error. VERIF_SEED, VERIF_TIER, VERIF_JOBS, VERIF_RUNS, PIKASIM_REPO are honoured. Genuine defects found by the checks were repaired in /repo as 'fix:' commits and are listed as 'fixed:' in /verif/known_findings.txt.",
}
json.dump(m, open('/verif/MANIFEST.json','w'), indent=1)
import jsonschema
jsonschema.validate(m, json.load(open('/root/.vp/MANIFEST.schema.json')))
print('manifest ok', claimed)

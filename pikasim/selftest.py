"""Self-tests: import, determinism (same seed twice, other PYTHONHASHSEED, other worker count), probes."""
from __future__ import annotations

import json
import os
import subprocess
import sys
import time

from . import lib, runner

HERE = os.path.dirname(os.path.dirname(os.path.abspath(__file__)))


def st_import():
    L = lib.get()
    cen = L.census()
    n = sum(len(v) for v in cen.values())
    print(f"[selftest import] pypika_tortoise from {L.pkg_dir}; {len(cen)} classes / {n} builder methods; "
          f"{len(L.code_objects())} code objects; python {sys.version.split()[0]}")
    if not hasattr(sys, "monitoring"):
        print("sys.monitoring missing")
        return 2
    return 0


def digests(prop, seed, lo, hi):
    """[[full digest, cross-hash-seed digest], ...]"""
    from .cli import mod_for
    m = mod_for(prop)
    out = []
    for run in range(lo, hi):
        res, _ = m.one_run(seed, run)
        d = res.get("digest") or ("discard:" + str(res.get("discard")))
        out.append([d, res.get("xdigest") or d])
    return out


def _child(prop, seed, lo, hi, hashseed):
    env = dict(os.environ)
    env["PYTHONHASHSEED"] = str(hashseed)
    env["PYTHONDONTWRITEBYTECODE"] = "1"
    code = ("import sys, json; sys.path.insert(0, %r); from pikasim import selftest; "
            "print(json.dumps(selftest.digests(%r, %d, %d, %d)))" % (HERE, prop, seed, lo, hi))
    p = subprocess.run(["/venv/bin/python", "-c", code], env=env, capture_output=True, text=True, timeout=1800)
    if p.returncode != 0:
        raise RuntimeError("child failed: " + p.stderr[-2000:])
    return json.loads(p.stdout.strip().splitlines()[-1])


def _task(t):
    prop, seed, lo, hi, hs = t
    if hs is None:
        return digests(prop, seed, lo, hi)
    return _child(prop, seed, lo, hi, hs)


def st_determinism(props, nseeds, seed=None):
    """Each run index: twice in this process, and in fresh interpreters under three hash seeds,
    computed with 1 and with many workers; every digest list must be identical."""
    seed = runner.base_seed() if seed is None else seed
    status = 0
    for prop in props:
        t0 = time.time()
        chunk = max(1, nseeds // 16)
        ranges = [(lo, min(nseeds, lo + chunk)) for lo in range(0, nseeds, chunk)]
        variants = {}
        own = os.environ.get("PYTHONHASHSEED", "0")
        own = int(own) if own.isdigit() else 0
        for label, hs in (("inproc-a", None), ("inproc-b", None), ("fresh-same", own), ("hs1", 1), ("hs4242", 4242)):
            tasks = [(prop, seed, lo, hi, hs) for lo, hi in ranges]
            res = runner.pmap(_task, tasks, wall_cap=3000)
            variants[label] = [d for r in res for d in r]
        # one more batch computed by a single worker (different worker count), same hash seed
        variants["jobs1-same"] = _child(prop, seed, 0, min(nseeds, 24), own)
        # and a fresh interpreter PER RUN (each run is the first thing its process does: catches lazy first-use effects)
        nfe = min(nseeds, 16)
        fe = runner.pmap(_task, [(prop, seed, i, i + 1, own) for i in range(nfe)], wall_cap=3000)
        variants["fresh-each"] = [d for r in fe for d in r]
        ref = variants["inproc-a"]
        bad = []
        for label, v in variants.items():
            col = 1 if label.startswith("hs") else 0  # other hash seeds: compare the cross-hash-seed digest
            cmp_ref = ref[: len(v)]
            diffs = [i for i, (a, b) in enumerate(zip(cmp_ref, v)) if a[col] != b[col]]
            if diffs or len(v) != len(cmp_ref):
                bad.append((label, diffs[:10]))
        print(f"[selftest determinism] {prop}: {nseeds} runs x {len(variants)} variants (2 in-process, fresh "
              f"interpreter same PYTHONHASHSEED on 16 workers and on 1 worker: full event digests; "
              f"PYTHONHASHSEED 1 and 4242: program+plan+observation digests): "
              f"{'IDENTICAL' if not bad else 'DIVERGED ' + str(bad)} ({time.time() - t0:.1f}s)")
        if bad:
            status = 2
    return status


def main(what, tier):
    if what == "import":
        return st_import()
    props = [p for p in ("C01", "C02", "C13", "C15") if _has(p)]
    if what == "determinism":
        return st_determinism(props, 2000 if tier == "thorough" else 64)
    if what == "all":
        return st_import() or st_determinism(props, 64)
    if what in ("sensitivity", "probes", "benign"):
        from . import sensitivity
        return sensitivity.main(what, tier)
    print("unknown selftest", what)
    return 2


def _has(p):
    from .cli import MODULES
    return os.path.exists(os.path.join(os.path.dirname(__file__), MODULES[p] + ".py"))

"""Self-tests: import, determinism (same seed twice, other PYTHONHASHSEED, other worker count), probes."""
from __future__ import annotations

import json
import os
import subprocess
import sys
import time

from . import lib, runner

HERE = os.path.dirname(os.path.dirname(os.path.abspath(__file__)))


def st_import():
    L = lib.get()
    cen = L.census()
    n = sum(len(v) for v in cen.values())
    print(f"[selftest import] pypika_tortoise from {L.pkg_dir}; {len(cen)} classes / {n} builder methods; "
          f"{len(L.code_objects())} code objects; python {sys.version.split()[0]}")
    if not hasattr(sys, "monitoring"):
        print("sys.monitoring missing")
        return 2
    return 0


def digests(prop, seed, lo, hi):
    """[[full digest, cross-hash-seed digest], ...]"""
    from .cli import mod_for
    m = mod_for(prop)
    out = []
    for run in range(lo, hi):
        res, _ = m.one_run(seed, run)
        d = res.get("digest") or ("discard:" + str(res.get("discard")))
        x = res.get("xdigest") or d
        if prop == "C15":
            # the holder-mode scenario of the same run index (spec + verdict + observations of both sides)
            from . import c15h
            h = c15h.run_digest(seed, run)
            d, x = runner.digest([d, h]), runner.digest([x, h])
        out.append([d, x])
    return out


def _child(prop, seed, lo, hi, hashseed):
    env = dict(os.environ)
    env["PYTHONHASHSEED"] = str(hashseed)
    env["PYTHONDONTWRITEBYTECODE"] = "1"
    code = ("import sys, json; sys.path.insert(0, %r); from pikasim import selftest; "
            "print(json.dumps(selftest.digests(%r, %d, %d, %d)))" % (HERE, prop, seed, lo, hi))
    p = subprocess.run(["/venv/bin/python", "-c", code], env=env, capture_output=True, text=True, timeout=1800)
    if p.returncode != 0:
        raise RuntimeError("child failed: " + p.stderr[-2000:])
    return json.loads(p.stdout.strip().splitlines()[-1])


def _task(t):
    prop, seed, lo, hi, hs = t
    if hs is None:
        return digests(prop, seed, lo, hi)
    return _child(prop, seed, lo, hi, hs)


def st_determinism(props, nseeds, seed=None):
    """Each run index: twice in this process, and in fresh interpreters under three hash seeds,
    computed with 1 and with many workers; every digest list must be identical."""
    seed = runner.base_seed() if seed is None else seed
    status = 0
    for prop in props:
        t0 = time.time()
        chunk = max(1, nseeds // 16)
        ranges = [(lo, min(nseeds, lo + chunk)) for lo in range(0, nseeds, chunk)]
        variants = {}
        own = os.environ.get("PYTHONHASHSEED", "0")
        own = int(own) if own.isdigit() else 0
        for label, hs in (("inproc-a", None), ("inproc-b", None), ("fresh-same", own), ("hs1", 1), ("hs4242", 4242)):
            tasks = [(prop, seed, lo, hi, hs) for lo, hi in ranges]
            res = runner.pmap(_task, tasks, wall_cap=3000)
            variants[label] = [d for r in res for d in r]
        # one more batch computed by a single worker (different worker count), same hash seed
        variants["jobs1-same"] = _child(prop, seed, 0, min(nseeds, 24), own)
        # and a fresh interpreter PER RUN (each run is the first thing its process does: catches lazy first-use effects)
        nfe = min(nseeds, 16)
        fe = runner.pmap(_task, [(prop, seed, i, i + 1, own) for i in range(nfe)], wall_cap=3000)
        variants["fresh-each"] = [d for r in fe for d in r]
        ref = variants["inproc-a"]
        bad = []
        for label, v in variants.items():
            col = 1 if label.startswith("hs") else 0  # other hash seeds: compare the cross-hash-seed digest
            cmp_ref = ref[: len(v)]
            diffs = [i for i, (a, b) in enumerate(zip(cmp_ref, v)) if a[col] != b[col]]
            if diffs or len(v) != len(cmp_ref):
                bad.append((label, diffs[:10]))
        print(f"[selftest determinism] {prop}: {nseeds} runs x {len(variants)} variants (2 in-process, fresh "
              f"interpreter same PYTHONHASHSEED on 16 workers and on 1 worker: full event digests; "
              f"PYTHONHASHSEED 1 and 4242: program+plan+observation digests): "
              f"{'IDENTICAL' if not bad else 'DIVERGED ' + str(bad)} ({time.time() - t0:.1f}s)")
        if bad:
            status = 2
    return status


PROBES = {
    "C01": [("faults_fired.async_exc", 1), ("faults_fired.async_err", 1), ("faults_fired.stall", 1),
            ("faults_fired.async_exc_crashpoint_sweep", 1), ("preemptions_inside_library_frames", 1),
            ("ops_begun_while_another_actor_mid_op", 1), ("builder_methods_exercised", 85),
            ("configs.seq", 1), ("configs.seq+autoalias", 1), ("configs.seq-fault", 1), ("configs.thr", 1),
            ("configs.thr-contend", 1), ("distinct_interleavings_by_schedule_hash", 10)],
    "C02": [("faults_fired.async_exc", 1), ("faults_fired.async_err", 1), ("faults_fired.leaf_exc", 1),
            ("faults_fired.recursion", 1), ("faults_fired.stall", 1), ("faults_fired.hashseed_restart", 1),
            ("reads_overlapping_a_read_of_the_same_object", 1), ("read_modes.par_own", 1), ("read_modes.hash", 1),
            ("read_modes.eq", 1), ("rendered_statement_kinds.PostgreSQLQueryBuilder.get_sql[update]", 1),
            ("runs_compared_across_interpreters_with_other_PYTHONHASHSEED", 1)],
    "C13": [("sqlite_states_prepared", 1), ("accumulation_list_checks", 1), ("accumulation_conjoin_checks", 1),
            ("accumulation_lastwins_checks", 1), ("modes.entry", 1), ("modes.cross", 1), ("statement_kinds.setop", 1),
            ("statement_kinds.create", 1), ("merges_executed_besides_canonical", 100), ("modes.population", 1),
            ("statement_kinds.load", 1), ("population_statements_lexed", 100),
            ("population_subquery_embeddings_compared_with_standalone_text", 10),
            ("population_nested_statements_prepared_by_sqlite", 5)],
    "C15": [("duplication_mechanisms.copy", 1), ("duplication_mechanisms.deepcopy", 1), ("duplication_mechanisms.pickle", 1),
            ("restarts_pickle_to_other_interpreter", 1), ("ops_continued_on_restored_objects", 1),
            ("mutable_mode_objects", 1), ("builder_calls_on_a_duplicate_or_its_original_after_the_dup", 1),
            ("faults_fired.async_exc", 1), ("classes_duplicated.Table", 1), ("classes_duplicated.Schema", 1),
            ("classes_duplicated.Not", 1), ("classes_duplicated._SetOperation", 1), ("configs.seq+autoalias", 1),
            ("automatic_aliases_written_into_shared_arguments", 1),
            ("holder_mode_runs_embedded_mutable_subquery_changed_in_place_after_dup", 100),
            ("holder_mode_runs_where_the_call_changed_the_touched_sides_render", 100),
            ("holder_mode_mechanisms.deepcopy", 1), ("holder_mode_mechanisms.pickle", 1),
            ("holder_mode_embedding_positions.join", 1), ("holder_mode_embedding_positions.values_rows", 1),
            ("holder_mode_embedding_positions.with", 1), ("holder_mode_embedding_positions.create_as", 1)],
}


def st_probes(runs=1500):
    """Reach probes: a quick run of every check must actually have hit each rare condition the design relies on;
    a probe stuck at zero fails the SELF-TEST (the workload or fault mix must change), never the check."""
    import shutil
    import tempfile

    status = 0
    tmp = tempfile.mkdtemp(prefix="pikaprobe_")
    try:
        for prop, probes in PROBES.items():
            env = dict(os.environ, PIKASIM_EVIDENCE_DIR=tmp, PIKASIM_REPLAY_DIR=os.path.join(tmp, "replays"))
            p = subprocess.run([os.path.join(HERE, "check"), prop, "--runs", str(runs)], env=env, capture_output=True, text=True)
            cov = json.load(open(os.path.join(tmp, prop + ".json")))["coverage"]
            zero = []
            for path, need in probes:
                v = cov
                # keys may themselves contain dots (e.g. 'Class.get_sql[update]'): longest-prefix walk
                parts = path.split(".")
                while parts and isinstance(v, dict):
                    for k in range(len(parts), 0, -1):
                        key = ".".join(parts[:k])
                        if key in v:
                            v = v[key]
                            parts = parts[k:]
                            break
                    else:
                        v = 0
                        parts = []
                if not isinstance(v, (int, float)) or v < need:
                    zero.append((path, v if isinstance(v, (int, float)) else 0))
            print(f"[selftest probes] {prop}: {len(probes) - len(zero)}/{len(probes)} probes reached in {runs} runs"
                  + (f"; NOT reached: {zero}" if zero else "") + f" (check exit {p.returncode})")
            if zero or p.returncode != 0:
                status = 2
    finally:
        shutil.rmtree(tmp, ignore_errors=True)
    return status


def main(what, tier):
    if what == "import":
        return st_import()
    props = [p for p in ("C01", "C02", "C13", "C15") if _has(p)]
    if what == "determinism":
        return st_determinism(props, 2000 if tier == "thorough" else 64)
    if what == "all":
        return st_import() or st_determinism(props, 64)
    if what == "probes":
        return st_probes(6000 if tier == "thorough" else 1500)
    if what in ("sensitivity", "benign"):
        from . import sensitivity
        return sensitivity.main(what, tier)
    print("unknown selftest", what)
    return 2


def _has(p):
    from .cli import MODULES
    return os.path.exists(os.path.join(os.path.dirname(__file__), MODULES[p] + ".py"))

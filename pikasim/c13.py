"""C13 — statements are well-formed and independent of the order of commuting calls.

Only one dimension of this family exists for C13: DELIVERY ORDER.  A statement is assembled by K
clause actors, each owning a FIFO queue of calls that address one clause group, delivered one call
at a time to the evolving builder.  A schedule is a merge of the queues; the scheduler samples
merges (uniform random linear extensions plus adversarial ones).  Oracles: (a) the final
observation is the same under every merge; (b) same-clause accumulation; (c) well-formedness
riders on every prefix state reached (balanced brackets/quotes, clause keywords at most once and in
the dialect's order, incomplete builder renders "", sqlite3 accepts SQLite-dialect states).
"""
from __future__ import annotations

import collections
import random
import sqlite3

from . import gen, lang, lib, obs, runner, sqllex

PROP = "C13"

TA = {"t": "table", "name": "a"}
TB = {"t": "table", "name": "b"}
TC = {"t": "table", "name": "c"}
TD = {"t": "table", "name": "d"}
COLS = ["x", "y", "z", "id"]
QCLS = gen.QCLS


def F(tbl, col, alias=None):
    s = {"t": "field", "name": col, "tbl": tbl}
    if alias:
        s["alias"] = alias
    return s


class G:
    """Program generator for one statement."""

    def __init__(self, rng):
        self.rng = rng

    def ch(self, xs):
        return xs[self.rng.randrange(len(xs))]

    def p(self, x):
        return self.rng.random() < x

    def val(self):
        return self.ch([0, 1, 5, 42, "v", "o'k", 1.5, True, None])

    def crit(self, tbl, agg=False):
        l = F(tbl, self.ch(COLS))
        if agg:
            l = {"t": "new", "c": self.ch(["fn.Sum", "fn.Count", "fn.Max"]), "a": [l]}
        c = {"t": "bin", "op": self.ch(["eq", "ne", "gt", "lt", "ge", "le"]), "l": l, "r": self.ch([0, 1, 5, "v"])}
        r = self.rng.random()
        if r < 0.2:
            c = {"t": "bin", "op": self.ch(["and", "or"]), "l": c,
                 "r": {"t": "meth", "x": F(tbl, self.ch(COLS)), "m": "isin", "a": [[1, 2, 3]]}}
        elif r < 0.3:
            c = {"t": "meth", "x": F(tbl, self.ch(COLS)), "m": self.ch(["isnull", "notnull"])}
        elif r < 0.4:
            c = {"t": "meth", "x": F(tbl, self.ch(COLS)), "m": "between", "a": [1, 9]}
        elif r < 0.45:
            c = {"t": "meth", "x": F(tbl, self.ch(COLS)), "m": "like", "a": ["a%"]}
        elif r < 0.53 and getattr(self, "cls", None):
            # a scalar or IN sub-query as the right-hand side (nested statements in predicates of every clause kind)
            sub = self.subq(self.cls)
            c = {"t": "bin", "op": self.ch(["gt", "eq"]), "l": l, "r": sub} if self.p(0.5) else \
                {"t": "meth", "x": F(tbl, self.ch(COLS)), "m": self.ch(["isin", "notin"]), "a": [sub]}
        return c

    def expr(self, tbl):
        r = self.rng.random()
        if r < 0.5:
            return F(tbl, self.ch(COLS), alias=self.ch([None, None, "k1"]))
        if r < 0.7:
            return {"t": "bin", "op": self.ch(["add", "mul", "sub"]), "l": F(tbl, self.ch(COLS)), "r": self.ch([1, 2, -1, -2.5])}
        if r < 0.85:
            return {"t": "new", "c": self.ch(["fn.Sum", "fn.Count", "fn.Max", "fn.Upper"]), "a": [F(tbl, self.ch(COLS))],
                    "kw": {"alias": self.ch(["s1", "s2"])} if self.p(0.5) else {}}
        return {"t": "meth", "x": {"t": "meth", "x": {"t": "new", "c": "Case"}, "m": "when",
                                   "a": [self.crit(tbl), self.val()]}, "m": "else_", "a": [0]}

    # ---------------------------------------------------------------- statements
    def program(self):
        cls = self.ch(QCLS)
        kind = self.ch(["select", "select", "select", "select", "insert", "insert", "insert", "update", "update", "delete",
                        "delete", "create", "create", "drop", "setop", "setop"] + (["load"] if self.p(0.3) else []))
        mode = "main"
        r = self.rng.random()
        if r < 0.1:
            mode = "entry"
        elif r < 0.2:
            mode = "cross"
        if kind == "delete" and mode == "main" and self.p(0.35):
            mode = "entry"  # delete() itself becomes one of the scheduled calls
        self.tail = []
        self.auto_alias_used = False
        self.cls = cls
        if kind == "load":
            cls = self.cls = "MySQLQuery"
        actors = getattr(self, "k_" + kind)(cls, mode)
        actors = [a for a in actors if a["calls"]]
        C = {"t": "cls", "name": cls}
        if kind == "select":
            entry = {"t": "meth", "x": C, "m": "from_", "a": [TA]}
        elif kind == "insert":
            entry = {"t": "meth", "x": C, "m": "into", "a": [TA]}
            if any(a["group"] == "select" for a in actors):
                # INSERT ... SELECT: the source the select/where terms name is owned by the entry point
                entry = {"t": "meth", "x": entry, "m": "from_", "a": [TB]}
        elif kind == "update":
            entry = {"t": "meth", "x": C, "m": "update", "a": [TA]}
        elif kind == "delete":
            entry = {"t": "meth", "x": C, "m": "from_", "a": [TA]}
            if not getattr(self, "delete_scheduled", False):
                entry = {"t": "meth", "x": entry, "m": "delete"}
        elif kind == "setop":
            q1 = {"t": "meth", "x": {"t": "meth", "x": C, "m": "from_", "a": [TA]}, "m": "select", "a": [F(TA, "x", alias="k1"), F(TA, "y")]}
            q2 = {"t": "meth", "x": {"t": "meth", "x": C, "m": "from_", "a": [TB]}, "m": "select", "a": [F(TB, "x"), F(TB, "y")]}
            ops = ["union", "union_all", "intersect", "except_of"] + (["minus"] if cls in ("OracleQuery", "Query") else [])
            entry = {"t": "meth", "x": q1, "m": self.ch(ops), "a": [q2]}
        elif kind == "create":
            entry = {"t": "meth", "x": C, "m": "create_table", "a": ["t_new"]}
        elif kind == "load":
            entry = {"t": "new", "c": "MySQLLoadQueryBuilder"}
        else:
            entry = {"t": "meth", "x": C, "m": "drop_table", "a": ["t_old"]}
        if mode == "main" and kind in ("select", "update") and self.p(0.08):
            # Table.select()/Table.update(): entry points that go through the table's remembered query class
            tq = {"t": "table", "name": "a", "qc": cls}
            entry = {"t": "meth", "x": tq, "m": "select", "a": [F(TA, "id")]} if kind == "select" else \
                {"t": "meth", "x": tq, "m": "update", "a": []}
        if mode == "entry":
            if kind in ("select", "update") or (kind == "insert" and entry["m"] == "from_"):
                # the entry call is itself one of the scheduled calls (its FIFO: into before from_ for INSERT..SELECT)
                calls = []
                e = entry
                while e.get("m") in ("from_", "into", "update"):
                    calls.insert(0, {"m": e["m"], "a": e["a"]})
                    e = e["x"]
                actors = [a for a in actors if a["group"] not in ("from2",)]
                if kind == "insert":
                    # into | from_ are different clauses: two actors
                    actors.insert(0, {"group": "entry_from", "calls": [calls[1]]})
                    actors.insert(0, {"group": "entry", "calls": [calls[0]]})
                else:
                    actors.insert(0, {"group": "entry", "calls": calls})
                entry = {"t": "meth", "x": C, "m": "_builder"}
            elif not (kind == "delete" and self.delete_scheduled):
                mode = "main"
        prog = {"cls": cls, "kind": kind, "mode": mode, "entry": entry, "actors": actors, "tail": self.tail}
        if kind in ("insert", "update", "delete") and mode == "main" and self.p(0.08):
            # the target table of the statement carries an alias (the same Table object a caller uses in its SELECTs)
            prog = _alias_target(prog)
            prog["aliased_target"] = True
        return prog

    def join_call(self, base_tbl, jt, how=None, variety=False):
        item = dict(jt)
        item["fresh"] = True
        if variety and self.p(0.4):
            v = self.ch(["using", "cross", "on_field", "subq", "cte", "self", "usubq"])
            if v == "usubq" and getattr(self, "auto_alias_used", False):
                v = "subq"  # two automatic sqN aliases are numbered in call order by design: at most one per program
            if v == "usubq":
                self.auto_alias_used = True
            if v == "self":
                # joining the FROM table to itself: the library aliases the joined occurrence "<name>2"
                me = dict(base_tbl)
                me["fresh"] = True
                return {"m": "join", "item": me, "how": how, "fin": "on",
                        "a": [{"t": "bin", "op": "eq", "l": F(base_tbl, "id"), "r": F(base_tbl, self.ch(COLS))}]}
            if v == "usubq":
                # un-aliased sub-query: the library assigns sqN
                return {"m": "join", "item": self.subq(self.cls), "how": how, "fin": "using", "a": ["x"]}
            if v == "using":
                return {"m": "join", "item": item, "how": how, "fin": "using",
                        "a": [self.ch(COLS)] + ([self.ch(COLS)] if self.p(0.3) else [])}
            if v == "cross":
                return {"m": "join", "item": item, "how": None, "fin": "cross", "a": []}
            if v == "on_field":
                # resolved against the first FROM source at call time (rejected while there is none)
                return {"m": "join", "item": item, "how": how, "fin": "on_field", "a": [self.ch(COLS)]}
            if v == "subq":
                sub = {"t": "meth", "x": self.subq(self.cls), "m": "as_", "a": ["sj"]}
                return {"m": "join", "item": sub, "how": how, "fin": "on",
                        "a": [{"t": "bin", "op": "eq", "l": F(base_tbl, self.ch(COLS)), "r": F(sub, "x")}]}
            cte = {"t": "new", "c": "AliasedQuery", "a": ["cte1"]}
            return {"m": "join", "item": cte, "how": how, "fin": "on",
                    "a": [{"t": "bin", "op": "eq", "l": F(base_tbl, self.ch(COLS)), "r": F(cte, "x")}]}
        return {"m": "join", "item": item, "how": how, "fin": "on",
                "a": [{"t": "bin", "op": "eq", "l": F(base_tbl, self.ch(COLS)), "r": F(jt, self.ch(COLS))}]}

    def sel_arg(self, mode):
        """One argument of select(): expression, string shorthand, or a star (which absorbs: select list semantics
        of `*` and `t.*` are the library's documented de-duplication, same in every delivery order)."""
        r = self.rng.random()
        if r < 0.06:
            return {"t": "star", "tbl": TA} if self.p(0.6) else {"t": "star", "tbl": TA, "via": "prop"}
        if mode == "main" and r < 0.10:
            return "*"
        if mode == "main" and r < 0.28:
            return self.ch(COLS)
        return self.expr(TA)

    def k_select(self, cls, mode):
        A = []
        sel = [{"m": "select", "a": [self.sel_arg(mode) for _ in range(self.rng.randint(1, 2))]}
               for _ in range(self.rng.randint(1, 3))]
        if self.p(0.3):
            # duplicates in the select list are legal and stay (DISTINCT is a flag, not a call-time de-duplication)
            first = sel[0]["a"][0]
            sel.append({"m": "select", "a": [dict(first) if isinstance(first, dict) else first]})
        A.append({"group": "select", "calls": sel})
        # flags of the SELECT clause are independent pieces of state: one actor each
        if self.p(0.25):
            A.append({"group": "distinct", "calls": [{"m": "distinct", "a": []}] * self.rng.randint(1, 2)})
        if cls == "MSSQLQuery" and self.p(0.4):
            A.append({"group": "top", "calls": [{"m": "top", "a": [self.ch([1, 10])]}]})
        if cls == "MySQLQuery" and self.p(0.4):
            A.append({"group": "modifier", "calls": [{"m": "modifier", "a": [x]} for x in
                                                      ["SQL_CALC_FOUND_ROWS", "HIGH_PRIORITY"][: self.rng.randint(1, 2)]]})
        if cls == "PostgreSQLQuery" and self.p(0.4):
            # strings, plain fields, and the aliased term as it stands in the select list (a term object reused)
            A.append({"group": "distinct_on", "calls": [{"m": "distinct_on", "a": [self.ch(COLS) if (mode == "main" and self.p(0.3))
                                                                                       else F(TA, self.ch(COLS), alias=self.ch([None, None, "k1"]))]}
                                                         for _ in range(self.rng.randint(1, 2))]})
        if self.p(0.25):
            A.append({"group": "from2", "calls": [{"m": "from_", "a": [self.from_item(cls)]}]})
        if self.p(0.5):
            js = [self.join_call(TA, TB, self.jt(), variety=(mode != "cross"))]
            if self.p(0.4):
                js.append(self.join_call(self.ch([TA, TB]) if js[0]["fin"] == "on" and js[0]["item"].get("t") == "table" else TA,
                                         TC, self.jt(), variety=(mode != "cross")))
            A.append({"group": "join", "calls": js})
        if self.p(0.7):
            A.append({"group": "where", "calls": [{"m": "where", "a": [self.crit(TA)]} for _ in range(self.rng.randint(1, 3))]})
        if cls == "Query" and self.p(0.15):
            A.append({"group": "prewhere", "calls": [{"m": "prewhere", "a": [self.crit(TA)]}
                                                      for _ in range(self.rng.randint(1, 2))]})
        if self.p(0.4):
            g = [{"m": "groupby", "a": [self.name_or_field(TA) if mode == "main" else F(TA, self.ch(COLS))]}
                 for _ in range(self.rng.randint(1, 2))]
            if self.p(0.25):
                # group by a term that carries the alias of a selected term (rendered as the alias or as the term,
                # depending on the dialect's groupby_alias)
                g.append({"m": "groupby", "a": [F(TA, self.ch(COLS), alias=self.ch(["k1", "s1"]))]})
            if cls in ("Query", "PostgreSQLQuery", "OracleQuery") and self.p(0.35):
                # rollup() calls anywhere in the FIFO: adjacent ones merge into one ROLLUP(...), others stay separate items
                for _ in range(self.rng.randint(1, 2)):
                    g.insert(self.rng.randrange(len(g) + 1), {"m": "rollup", "a": [F(TA, self.ch(COLS))]})
            if cls == "MySQLQuery" and self.p(0.3):
                g.append({"m": "rollup", "a": [], "kw": {"vendor": "mysql"}})
            A.append({"group": "groupby", "calls": g})
            if cls == "Query" and self.p(0.3):
                A.append({"group": "with_totals", "calls": [{"m": "with_totals", "a": []}]})
        if self.p(0.3):
            A.append({"group": "having", "calls": [{"m": "having", "a": [self.crit(TA, agg=True)]} for _ in range(self.rng.randint(1, 2))]})
        if self.p(0.5):
            A.append({"group": "orderby", "calls": [self.order_call(TA, strings=(mode == "main"))
                                                     for _ in range(self.rng.randint(1, 3))]})
        if self.p(0.5):
            A.append({"group": "page", "calls": self.page_calls(cls)})
        if cls in ("Query", "MySQLQuery", "PostgreSQLQuery", "OracleQuery") and self.p(0.25):
            kw = {}
            if self.p(0.5):
                kw["of"] = {"t": "v", "k": "tuple", "v": ["a", "b"][: self.rng.randint(1, 2)]}
            if self.p(0.3):
                kw["nowait"] = True
            elif self.p(0.3):
                kw["skip_locked"] = True
            A.append({"group": "lock", "calls": [{"m": "for_update", "a": [], "kw": kw}]})
        if cls in ("Query", "MySQLQuery") and self.p(0.2):
            A.append({"group": "force_index", "calls": [{"m": "force_index", "a": [self.ch(["ix1", "ix2"])]} for _ in range(self.rng.randint(1, 2))]})
        if cls in ("Query", "MySQLQuery") and self.p(0.15):
            A.append({"group": "use_index", "calls": [{"m": "use_index", "a": ["ix3"]}]})
        if self.p(0.2):
            A.append({"group": "with", "calls": [{"m": "with_", "a": [self.subq(cls), n]}
                                                  for n in ["cte1", "cte2"][: self.rng.randint(1, 2)]]})
        if mode == "cross" and self.p(0.7):
            # a term of one actor names a source that another actor introduces
            A = [a for a in A if a["group"] != "where"]
            A.append({"group": "xwhere", "calls": [{"m": "where", "a": [self.crit(TB)]}]})
            if not any(a["group"] == "join" for a in A):
                A.append({"group": "join", "calls": [self.join_call(TA, TB)]})
        return A

    def name_or_field(self, tbl):
        """String shorthand (resolved against the entry point's FROM table, which is fixed in the main mode), a
        position number, or a Field; the strings include names that are also aliases of selected terms."""
        if self.p(0.45):
            return self.ch(COLS + ["k1", "s1", "s2"])
        if self.p(0.1):
            return self.ch([1, 2])
        return F(tbl, self.ch(COLS))

    def from_item(self, cls):
        """A second FROM source: table, schema-qualified table, temporal table, aliased or un-aliased sub-query."""
        r = self.rng.random()
        if r < 0.45:
            return TD
        if r < 0.55 and cls != "SQLLiteQuery":
            crit = {"t": "meth", "x": {"t": "const", "name": "SYSTEM_TIME"}, "m": "as_of", "a": ["2020-01-01"]} if self.p(0.6) else \
                {"t": "meth", "x": {"t": "const", "name": "SYSTEM_TIME"}, "m": "between", "a": ["2020-01-01", "2021-01-01"]}
            return {"t": "table", "name": "d", "for": crit}
        if r < 0.7:
            return {"t": "table", "name": "d", "schema": "s"}
        sub = self.subq(cls)
        if r < 0.85 or getattr(self, "auto_alias_used", False):
            return {"t": "meth", "x": sub, "m": "as_", "a": ["sq9"]}
        self.auto_alias_used = True
        return sub  # the library assigns sq0

    def jt(self):
        return {"t": "enum", "c": "JoinType", "v": self.ch(["inner", "left", "cross", "right"])} if self.p(0.5) else None

    def subq(self, cls):
        return {"t": "meth", "x": {"t": "meth", "x": {"t": "cls", "name": cls}, "m": "from_", "a": [TC]}, "m": "select",
                "a": [F(TC, "x")]}

    def order_call(self, tbl, strings=False):
        c = {"m": "orderby", "a": [self.name_or_field(tbl) if strings else F(tbl, self.ch(COLS))]}
        if self.p(0.5):
            c["kw"] = {"order": {"t": "enum", "c": "Order", "v": self.ch(["asc", "desc"])}}
        return c

    def page_calls(self, cls):
        calls = []
        r = self.rng.random()
        lim = {"m": "fetch_next" if (cls == "MSSQLQuery" and self.p(0.4)) else "limit", "a": [self.ch([0, 1, 10])]}
        off = {"m": "offset", "a": [self.ch([0, 5])]}
        if r < 0.4:
            calls = [lim]
        elif r < 0.7:
            calls = [lim, off]  # limit first: SQLite/MySQL have no grammar for OFFSET without LIMIT
        elif r < 0.8:
            calls = [lim, {"m": "limit", "a": [3]}]
        elif r < 0.9:
            calls = [{"m": "slice", "a": [{"t": "slice", "a": self.ch([None, 2]), "b": self.ch([5, 9])}]}]
        else:
            calls = [lim, off, {"m": "offset", "a": [7]}]
        if cls != "MySQLQuery" and len(calls) >= 2 and calls[1]["m"] == "offset" and self.p(0.5):
            # offset first: a prefix state with OFFSET and no LIMIT (SQLite spells that LIMIT -1 OFFSET n; MySQL, for
            # which no parser is at hand, is left out)
            calls[0], calls[1] = calls[1], calls[0]
        if cls != "MySQLQuery" and self.p(0.08):
            calls = [off]  # offset() alone
        return calls

    def k_insert(self, cls, mode):
        A = []
        select_form = self.p(0.25)
        if self.p(0.6):
            n = self.rng.randint(1, 2)
            A.append({"group": "columns", "calls": [{"m": "columns", "a": [self.ch(COLS) for _ in range(self.rng.randint(1, 2))]}
                                                     for _ in range(n)]})
        if select_form:
            A.append({"group": "select", "calls": [{"m": "select", "a": [F(TB, self.ch(COLS))]} for _ in range(self.rng.randint(1, 2))]})
            if self.p(0.5) and mode != "cross":
                A.append({"group": "where", "calls": [{"m": "where", "a": [self.crit(TB)]}]})
            if cls in ("Query", "PostgreSQLQuery", "SQLLiteQuery") and mode == "main" and self.p(0.35):
                # upsert fed by a SELECT; the conflict FIFO holds no where() here (a where() before on_conflict is the
                # SELECT's, after it the conflict target's: the known call-time routing)
                c = [{"m": "on_conflict", "a": [self.ch(COLS)]},
                     {"m": "do_update", "a": [self.ch(COLS), self.ch([1, "v"])]} if self.p(0.6) else {"m": "do_nothing", "a": []}]
                A.append({"group": "conflict", "calls": c})
                if self.p(0.5):
                    # keep the SELECT's WHERE, delivered before the conflict calls as part of the same FIFO
                    w = [a for a in A if a["group"] == "where"]
                    if w:
                        A[-1]["calls"] = w[0]["calls"] + A[-1]["calls"]
                A = [a for a in A if a["group"] != "where"]
            if self.p(0.2):
                A.append({"group": "orderby", "calls": [self.order_call(TB)]})
            if mode == "main" and self.p(0.4):
                # the SELECT that feeds the INSERT joins further sources (every join form, constraint-free ones included)
                js = [self.join_call(TB, TC, self.jt(), variety=True)]
                if self.p(0.4):
                    js.append({"m": "join", "item": dict(TD, fresh=True), "how": None, "fin": "cross", "a": []})
                A.append({"group": "join", "calls": js})
        else:
            rows = [{"m": self.ch(["insert", "insert", "insert", "replace"]), "a": [self.val(), self.val()]}
                    for _ in range(self.rng.randint(1, 3))]
            if self.p(0.1):  # one row given as a list
                rows.append({"m": "insert", "a": [{"t": "v", "k": "list", "v": [7, "l"]}]})
            if self.p(0.15):  # several rows in one call
                rows.append({"m": "insert", "a": [{"t": "v", "k": "tuple", "v": [1, "r"]}, {"t": "v", "k": "tuple", "v": [2, "s"]}]})
            A.append({"group": "rows", "calls": rows})
            if cls in ("Query", "PostgreSQLQuery", "SQLLiteQuery", "MySQLQuery") and self.p(0.5):
                c = []
                if cls == "MySQLQuery":
                    c.append({"m": "on_conflict", "a": []})
                    r = self.rng.random()
                    if r < 0.5:
                        c.append({"m": "do_update", "a": [self.ch(COLS), self.ch([1, "v", 0]) if self.p(0.8) else self.subq(cls)]})
                    elif r < 0.7:
                        # value-less form: col=<alias>.col, the alias of the inserted row given by as_()
                        c.append({"m": "do_update", "a": [self.ch(COLS)]})
                        A.append({"group": "alias", "calls": [{"m": "as_", "a": ["new_row"]}]})
                    else:
                        c.append({"m": "do_nothing", "a": []})
                elif mode == "main" and self.p(0.4):
                    # on_conflict() and do_update() are different clauses and commute; a where() delivered AFTER both
                    # (program["tail"]) is routed to DO UPDATE ... WHERE whatever their relative order was
                    A.append({"group": "conflict_target", "calls": [{"m": "on_conflict", "a": [self.ch(COLS)]}
                                                                      for _ in range(self.rng.randint(1, 2))]})
                    A.append({"group": "conflict_action", "calls": [{"m": "do_update", "a": [self.ch(COLS), self.ch([1, "v"]) if self.p(0.8)
                                                                                            else self.subq(cls)]}
                                                                      for _ in range(self.rng.randint(1, 2))]})
                    if self.p(0.7):
                        self.tail = [{"m": "where", "a": [self.crit(TA)]}]
                    c = None
                else:
                    c.append({"m": "on_conflict", "a": [self.ch(COLS) if self.p(0.7) else F(TA, self.ch(COLS), alias=self.ch([None, "k1"]))]
                              + ([self.ch(COLS)] if self.p(0.2) else [])})
                    if self.p(0.3):
                        c.append({"m": "where", "a": [self.crit(TA)]})
                    if self.p(0.7):
                        c.append({"m": "do_update", "a": [self.ch(COLS) if self.p(0.7) else F(TA, self.ch(COLS))]
                                  + ([self.ch([1, "v"]) if self.p(0.8) else self.subq(cls)] if self.p(0.6) else [])})
                        if self.p(0.4):
                            c.append({"m": "do_update", "a": [self.ch(COLS), 2]})
                        if self.p(0.3):
                            c.append({"m": "where", "a": [self.crit(TA)]})
                    else:
                        c.append({"m": "do_nothing", "a": []})
                if c is not None:
                    A.append({"group": "conflict", "calls": c})
                if c is not None and mode == "cross" and self.p(0.7):
                    # where() as an actor of its own next to the conflict FIFO (which then holds no where itself)
                    c[:] = [x for x in c if x["m"] != "where"]
                    A.append({"group": "xwhere", "calls": [{"m": "where", "a": [self.crit(TA)]}]})
        if self.p(0.12):
            A.append({"group": "with", "calls": [{"m": "with_", "a": [self.subq(cls), "cte1"]}]})
        if cls == "PostgreSQLQuery" and self.p(0.4):
            A.append({"group": "returning", "calls": [{"m": "returning", "a": [self.ch(
                [F(TA, "id"), "*", F(TA, "x"), "y", {"t": "star", "tbl": TA},
                 {"t": "bin", "op": "add", "l": F(TA, "x"), "r": 1}, 7])]}
                for _ in range(self.rng.randint(1, 2))]})
        return A

    def k_update(self, cls, mode):
        A = [{"group": "set", "calls": [{"m": "set", "a": [self.ch(COLS) if self.p(0.5) else F(TA, self.ch(COLS)),
                                                           self.val() if self.p(0.75) else
                                                           self.subq(cls) if self.p(0.3) else
                                                           {"t": "bin", "op": "add", "l": F(TA, self.ch(COLS)), "r": self.ch([1, -1])}]}
                                        for _ in range(self.rng.randint(1, 3))]}]
        if self.p(0.7):
            A.append({"group": "where", "calls": [{"m": "where", "a": [self.crit(TA)]} for _ in range(self.rng.randint(1, 2))]})
        if self.p(0.35):
            A.append({"group": "join", "calls": [self.join_call(TA, TB, self.jt())]})
        if self.p(0.2):
            A.append({"group": "from2", "calls": [{"m": "from_", "a": [TD]}]})
        if cls in ("MySQLQuery", "PostgreSQLQuery", "SQLLiteQuery") and self.p(0.3):
            A.append({"group": "orderby", "calls": [self.order_call(TA)]})
        if cls in ("MySQLQuery", "PostgreSQLQuery", "SQLLiteQuery") and self.p(0.3):
            A.append({"group": "page", "calls": [{"m": "limit", "a": [self.ch([1, 5])]}]})
        if cls == "PostgreSQLQuery" and self.p(0.4):
            A.append({"group": "returning", "calls": [{"m": "returning", "a": [self.ch([F(TA, "id"), "id", "*"])]}]})
            if mode == "cross" and self.p(0.7):
                A = [a for a in A if a["group"] != "returning"]
                A.append({"group": "xreturning", "calls": [{"m": "returning", "a": [F(TB, "y")]}]})
                if not any(a["group"] == "join" for a in A):
                    A.append({"group": "join", "calls": [self.join_call(TA, TB)]})
        if self.p(0.15):
            A.append({"group": "with", "calls": [{"m": "with_", "a": [self.subq(cls), "cte1"]}]})
        return A

    def k_delete(self, cls, mode):
        A = []
        self.delete_scheduled = mode == "entry"
        if self.delete_scheduled:
            # delete() itself is one of the scheduled calls (it addresses the statement verb, not a clause of its own)
            A.append({"group": "delete", "calls": [{"m": "delete", "a": []}]})
            if cls not in ("SQLLiteQuery", "MySQLQuery") and self.p(0.5):
                A.append({"group": "offset", "calls": [{"m": "offset", "a": [self.ch([2, 5])]}]})
            if self.p(0.4) and cls not in ("MySQLQuery", "SQLLiteQuery"):
                A.append({"group": "page", "calls": [{"m": "limit", "a": [self.ch([1, 5])]}]})
        if self.p(0.8):
            A.append({"group": "where", "calls": [{"m": "where", "a": [self.crit(TA)]} for _ in range(self.rng.randint(1, 2))]})
        if cls in ("MySQLQuery", "SQLLiteQuery") and self.p(0.4):
            A.append({"group": "orderby", "calls": [self.order_call(TA)]})
            A.append({"group": "page", "calls": [{"m": "limit", "a": [self.ch([1, 5])]}]})
        if cls == "PostgreSQLQuery" and self.p(0.5):
            A.append({"group": "returning", "calls": [{"m": "returning", "a": [self.ch([F(TA, "id"), "*", "x"])]}]})
        return A

    def k_create(self, cls, mode):
        if self.p(0.15):
            # CREATE TABLE ... AS SELECT: as_select() instead of columns()
            A = [{"group": "as_select", "calls": [{"m": "as_select", "a": [self.subq(cls)]}]}]
            for flag in ["temporary", "if_not_exists"] + (["unlogged"] if cls == "PostgreSQLQuery" else []):
                if self.p(0.3):
                    A.append({"group": flag, "calls": [{"m": flag, "a": []}]})
            return A
        A = [{"group": "columns", "calls": [{"m": "columns", "a": [self.col() for _ in range(self.rng.randint(1, 2))]}
                                            for _ in range(self.rng.randint(1, 3))]}]
        if self.p(0.4):
            A.append({"group": "unique", "calls": [{"m": "unique", "a": [self.ch(["id", "name"])]} for _ in range(self.rng.randint(1, 2))]})
        if self.p(0.4):
            A.append({"group": "pk", "calls": [{"m": "primary_key", "a": ["id"]}]})
        if cls in ("Query", "MSSQLQuery", "MySQLQuery") and self.p(0.2):
            A.append({"group": "period", "calls": [{"m": "period_for", "a": ["p1", "start_d", "end_d"]}]})
        flags = ["temporary", "if_not_exists"]
        if cls == "PostgreSQLQuery":
            flags.append("unlogged")
        if cls in ("Query", "MSSQLQuery", "MySQLQuery"):
            flags.append("with_system_versioning")
        for flag in flags:
            if self.p(0.2):
                A.append({"group": flag, "calls": [{"m": flag, "a": []}]})
        return A

    def col(self):
        n = self.ch(["id", "name", "start_d", "end_d", "v"])
        r = self.rng.random()
        if r < 0.3:
            return n
        if r < 0.6:
            return {"t": "v", "k": "tuple", "v": [n, self.ch(["INT", "VARCHAR(10)"])]}
        kw = {}
        if self.p(0.5):
            kw["nullable"] = self.p(0.5)
        if self.p(0.5):
            kw["default"] = self.ch([0, "d"])
        return {"t": "new", "c": "Column", "a": [n, "INT"], "kw": kw}

    def k_setop(self, cls, mode):
        A = []
        if self.p(0.7):
            A.append({"group": "orderby", "calls": [{"m": "orderby", "a": [self.ch(["x", "y", F(TA, "x"), F(TA, "x", alias="k1")])],
                                                     **({"kw": {"order": {"t": "enum", "c": "Order", "v": self.ch(["asc", "desc"])}}}
                                                        if self.p(0.5) else {})}
                                                    for _ in range(self.rng.randint(1, 2))]})
        if self.p(0.6):
            A.append({"group": "limit", "calls": [{"m": "limit", "a": [self.ch([1, 10])]} for _ in range(self.rng.randint(1, 2))]})
        if self.p(0.5):
            A.append({"group": "offset", "calls": [{"m": "offset", "a": [self.ch([0, 5])]}]})
        if self.p(0.5):
            q3 = {"t": "meth", "x": {"t": "meth", "x": {"t": "cls", "name": cls}, "m": "from_", "a": [TC]}, "m": "select",
                  "a": [F(TC, "x"), F(TC, "y")]}
            ops = ["union", "union_all", "intersect", "except_of"] + (["minus"] if cls in ("OracleQuery", "Query") else [])
            A.append({"group": "operands", "calls": [{"m": self.ch(ops), "a": [q3]}
                                                      for _ in range(self.rng.randint(1, 2))]})
        if self.p(0.3):
            A.append({"group": "alias", "calls": [{"m": "as_", "a": ["u1"]}]})
        return A

    def k_load(self, cls, mode):
        return [{"group": "load", "calls": [{"m": "load", "a": ["/tmp/f.csv"]}]},
                {"group": "into", "calls": [{"m": "into", "a": [self.ch(["t_load", TA])]}]}]

    def k_drop(self, cls, mode):
        return [{"group": "if_exists", "calls": [{"m": "if_exists", "a": []}]}] if self.p(0.7) else []


def _alias_target(x):
    """The program with every un-aliased occurrence of table "a" (the statement's target) given the alias "a1"."""
    if isinstance(x, dict):
        if x.get("t") == "table" and x.get("name") == TA["name"] and not x.get("alias") and not x.get("schema"):
            return dict(x, alias="a1")
        return {k: _alias_target(v) for k, v in x.items()}
    if isinstance(x, list):
        return [_alias_target(v) for v in x]
    return x


# ------------------------------------------------------------------ execution
def apply_call(env, head, call):
    if "fin" in call:
        item = env.ev(call["item"])
        how = env.ev(call["how"]) if call.get("how") is not None else None
        a = [env.ev(x) for x in call.get("a", [])]
        j = head.join(item, how) if how is not None else head.join(item)
        return getattr(j, call["fin"])(*a)
    a = [env.ev(x) for x in call.get("a", [])]
    kw = {k: env.ev(v) for k, v in call.get("kw", {}).items()}
    return getattr(head, call["m"])(*a, **kw)


def run_merge(prog, merge, keep_prefix=False):
    """Deliver the calls in merge order.  Returns (final head or None, error (step, exc) or None, prefix heads)."""
    env = lang.Env(share_tables=True)
    head = env.ev(prog["entry"])
    pos = [0] * len(prog["actors"])
    prefixes = [(None, head)] if keep_prefix else []
    for step, ai in enumerate(merge):
        call = prog["actors"][ai]["calls"][pos[ai]]
        pos[ai] += 1
        try:
            head = apply_call(env, head, call)
        except Exception as e:  # noqa: BLE001
            return None, (step, type(e).__name__, call["m"]), prefixes
        if keep_prefix:
            prefixes.append((call, head))
    for call in prog.get("tail", ()):  # calls delivered after every scheduled call, in every merge
        try:
            head = apply_call(env, head, call)
        except Exception as e:  # noqa: BLE001
            return None, (len(merge), type(e).__name__, call["m"]), prefixes
    return head, None, prefixes


def canonical(prog):
    m = []
    for i, a in enumerate(prog["actors"]):
        m += [i] * len(a["calls"])
    return m


def sample_merges(prog, rng, k):
    n = [len(a["calls"]) for a in prog["actors"]]
    K = len(n)
    out = []
    seen = set()

    def add(m):
        t = tuple(m)
        if t not in seen and len(t) == sum(n):
            seen.add(t)
            out.append(list(m))

    can = canonical(prog)
    # adversarial merges
    rev = []
    for i in reversed(range(K)):
        rev += [i] * n[i]
    add(rev)
    rr = []
    left = list(n)
    while sum(left):
        for i in range(K):
            if left[i]:
                rr.append(i)
                left[i] -= 1
    add(rr)
    if K >= 2:
        i = rng.randrange(K)
        add([i] * n[i] + [j for j in can if j != i])
        add([j for j in can if j != i] + [i] * n[i])
    tries = 0
    while len(out) < k and tries < 4 * k:
        tries += 1
        left = list(n)
        m = []
        while sum(left):
            r = rng.randrange(sum(left))
            for i in range(K):
                if r < left[i]:
                    m.append(i)
                    left[i] -= 1
                    break
                r -= left[i]
        add(m)
    return [m for m in out if m != can][:k]


def final_obs(head, okw):
    return obs.strip_inprocess(obs.observe(head, **okw)) if head is not None else None


def outcome(prog, merge, okw):
    head, err, _ = run_merge(prog, merge)
    if err is not None:
        return {"raised": err[1]}
    return final_obs(head, okw)


def call_label(c):
    """Method name, qualified where one method has situations with different semantics (a join of the FROM table
    to itself triggers the automatic "<name>2" alias)."""
    if c["m"] == "join":
        it = c.get("item")
        if isinstance(it, dict) and it.get("t") == "table" and it.get("name") == TA["name"] and not it.get("alias"):
            return "join[self]"
    return c["m"]


def find_pair(prog, bad_merge, okw, ref):
    """Walk from the failing merge to the canonical one by adjacent transpositions of calls of different
    actors; the first transposition that changes the outcome names the non-commuting pair of methods."""
    cur = list(bad_merge)
    can = canonical(prog)

    def key_of(merge):
        pos = [0] * len(prog["actors"])
        ks = []
        for ai in merge:
            ks.append((ai, pos[ai]))
            pos[ai] += 1
        return ks

    target_rank = {k: i for i, k in enumerate(key_of(can))}
    cur_out = outcome(prog, cur, okw)
    guard = 0
    while guard < 400:
        guard += 1
        ks = key_of(cur)
        swapped = False
        for i in range(len(cur) - 1):
            if cur[i] != cur[i + 1] and target_rank[ks[i]] > target_rank[ks[i + 1]]:
                nxt = list(cur)
                nxt[i], nxt[i + 1] = nxt[i + 1], nxt[i]
                out = outcome(prog, nxt, okw)
                if out != cur_out:
                    c1 = prog["actors"][ks[i][0]]["calls"][ks[i][1]]
                    c2 = prog["actors"][ks[i + 1][0]]["calls"][ks[i + 1][1]]
                    return sorted([call_label(c1), call_label(c2)]), cur, nxt
                cur, cur_out = nxt, out
                swapped = True
                break
        if not swapped:
            break
    return None, None, None


def minimise_noncommuting(prog, merge, okw):
    """Greedy reduction of a non-commuting program: drop whole actors, then single calls, while SOME merge of what is
    left still differs from its canonical order (searched among the adversarial merges)."""
    def differs(p):
        can = canonical(p)
        ref = outcome(p, can, okw)
        if isinstance(ref, dict) and "raised" in ref:
            return None
        K = len(p["actors"])
        if K < 2:
            return None
        cands = []
        rev = []
        for i in reversed(range(K)):
            rev += [i] * len(p["actors"][i]["calls"])
        cands.append(rev)
        for i in range(K):
            cands.append([i] * len(p["actors"][i]["calls"]) + [j for j in can if j != i])
            cands.append([j for j in can if j != i] + [i] * len(p["actors"][i]["calls"]))
        for m in cands:
            out = outcome(p, m, okw)
            if p["mode"] != "main" and isinstance(out, dict) and "raised" in out:
                continue
            if out != ref:
                return m
        return None

    cur = {**prog, "actors": [dict(a) for a in prog["actors"]]}
    best = differs(cur) or merge
    changed = True
    while changed:
        changed = False
        for i in range(len(cur["actors"])):
            trial = {**cur, "actors": cur["actors"][:i] + cur["actors"][i + 1:]}
            m = differs(trial)
            if m is not None:
                cur, best, changed = trial, m, True
                break
        if changed:
            continue
        for i, a in enumerate(cur["actors"]):
            if len(a["calls"]) <= 1:
                continue
            for k in range(len(a["calls"])):
                na = {"group": a["group"], "calls": a["calls"][:k] + a["calls"][k + 1:]}
                trial = {**cur, "actors": cur["actors"][:i] + [na] + cur["actors"][i + 1:]}
                m = differs(trial)
                if m is not None:
                    cur, best, changed = trial, m, True
                    break
            if changed:
                break
    return cur, best


# ------------------------------------------------------------------ riders
PAGED_LIMIT = ["LIMIT", "OFFSET"]
PAGED_FETCH = ["OFFSET", "FETCH NEXT"]


def order_table(cls, kind):
    page = PAGED_FETCH if cls in ("MSSQLQuery", "OracleQuery") else PAGED_LIMIT
    sel_tail = ["FROM", "FORCE INDEX", "USE INDEX", "JOIN*", "PREWHERE", "WHERE", "GROUP BY", "WITH TOTALS", "WITH ROLLUP",
                "HAVING", "ORDER BY"] + page + ["FOR UPDATE"]
    if kind == "select":
        return ["WITH", "SELECT", "INTO"] + sel_tail
    if kind == "insert":
        return ["WITH", "INSERT", "VALUES", "SELECT"] + sel_tail + ["ON CONFLICT", "WHERE", "DO", "WHERE",
                                                                  "ON DUPLICATE KEY UPDATE", "RETURNING"]
    if kind == "update":
        if cls in ("PostgreSQLQuery", "SQLLiteQuery"):
            return ["WITH", "UPDATE", "SET", "FROM", "JOIN*", "WHERE", "ORDER BY", "LIMIT", "RETURNING"]
        return ["WITH", "UPDATE", "JOIN*", "SET", "FROM", "WHERE", "ORDER BY", "LIMIT"]
    if kind == "delete":
        return ["WITH", "DELETE"] + sel_tail + ["RETURNING"]
    if kind == "create":
        # SQLite's CREATE TABLE ... AS SELECT has no parentheses: the select's clauses are top-level there
        return ["CREATE", "SELECT"] + sel_tail + ["WITH SYSTEM VERSIONING"]
    if kind in ("setop", "load"):
        return None
    return ["DROP"]


def check_order(names, table):
    """names must be an ordered sub-sequence of table (entries ending with * may repeat)."""
    p = 0
    for nm in names:
        q = p
        while q < len(table) and table[q].rstrip("*") != nm:
            q += 1
        if q >= len(table):
            return nm
        p = q if table[q].endswith("*") else q + 1
    return None


def check_order_at(names, table):
    """Like check_order, but returns (misplaced clause, the clause before it) or None."""
    p = 0
    prev = None
    for nm in names:
        q = p
        while q < len(table) and table[q].rstrip("*") != nm:
            q += 1
        if q >= len(table):
            return nm, prev
        p = q if table[q].endswith("*") else q + 1
        prev = nm
    return None


NEEDS_BODY = {"SELECT", "FROM", "WHERE", "PREWHERE", "GROUP BY", "HAVING", "ORDER BY", "LIMIT", "OFFSET", "FETCH NEXT",
              "SET", "VALUES", "RETURNING", "INTO", "JOIN", "INSERT", "UPDATE", "FORCE INDEX", "USE INDEX", "WITH"}

_SQLITE = None


def sqlite_conn():
    global _SQLITE
    if _SQLITE is None:
        c = sqlite3.connect(":memory:")
        for t in ("a", "b", "c", "d", "t_old", "cte_dummy"):
            c.execute(f'CREATE TABLE "{t}" (x, y, z, id)')
        _SQLITE = c
    return _SQLITE


PARSER_ERRORS = ("syntax error", "unrecognized token", "incomplete input")


def sqlite_parse_error(sql):
    try:
        sqlite_conn().execute("EXPLAIN " + sql)
        return None
    except sqlite3.Error as e:
        msg = str(e)
        if any(p in msg for p in PARSER_ERRORS):
            return msg
        return None  # name resolution etc.: C13 does not speak about it


def delivered_model(prog, merge, upto):
    """Which calls have been delivered after `upto` steps (method name multiset)."""
    pos = [0] * len(prog["actors"])
    ms = collections.Counter()
    for ai in merge[:upto]:
        ms[prog["actors"][ai]["calls"][pos[ai]]["m"]] += 1
        pos[ai] += 1
    return ms


def expect_complete(prog, ms):
    k = prog["kind"]
    entry_m = prog["entry"].get("m")
    if prog["mode"] == "entry" and k in ("select", "insert", "update"):
        # entry call scheduled: statement kind is established only once it was delivered
        need = {"select": "from_", "insert": "into", "update": "update"}[k]
        has_entry = ms[need] > 0
    else:
        has_entry = True
    if k == "load":
        return ms["load"] > 0 and ms["into"] > 0
    if k == "select":
        return ms["select"] > 0 or entry_m == "select"  # SELECT without FROM renders too
    if k == "insert":
        return has_entry and (ms["insert"] + ms["replace"] > 0 or ms["select"] > 0)
    if k == "update":
        return has_entry and ms["set"] > 0
    if k == "delete":
        return ms["delete"] > 0 or prog["entry"].get("m") == "delete"
    if k == "create":
        return ms["columns"] > 0 or ms["as_select"] > 0
    return True  # drop, delete, set operations are complete from their entry point on


SQLITE_UNSUPPORTED = {"for_update", "force_index", "use_index", "rollup", "prewhere", "with_totals",
                      "unlogged", "with_system_versioning", "period_for"}


def riders(prog, merge, prefixes, L, stats):
    """Per-state invariants on every prefix state of this merge.  Returns list of (name, detail)."""
    bad = []
    cls = prog["cls"]
    ctx = L.CTX[cls]
    iq = "`" if cls == "MySQLQuery" else '"'
    bs = cls == "MySQLQuery"
    table = order_table(cls, prog["kind"])
    for upto, (call, head) in enumerate(prefixes):
        try:
            sql = head.get_sql(ctx)
        except Exception as e:  # noqa: BLE001
            # raising at render is C14's business unless the canonical order renders: compare in oracle (a)
            stats["render_raises"] += 1
            continue
        ms = delivered_model(prog, merge, upto)
        stats["states"] += 1
        complete = expect_complete(prog, ms)
        if prog["mode"] == "main":
            if not complete and sql != "":
                bad.append(("fragment", f"incomplete {prog['kind']} builder rendered {sql[:60]!r}"))
            if complete and sql == "":
                bad.append(("empty", f"complete {prog['kind']} builder rendered the empty string"))
        if sql == "":
            continue
        try:
            toks, cl = sqllex.top_clauses(sql, iq, bs)
        except sqllex.LexError as e:
            bad.append(("balance", str(e)))
            continue
        stats["lexed"] += 1
        if prog["mode"] == "main" and table is not None:
            names = [c[0] for c in cl]
            miss = check_order(names, table)
            if miss is not None:
                bad.append(("clause-order", f"{miss} out of place or repeated in {' > '.join(names)}"))
        # DISTINCT, when present, directly follows SELECT (before TOP (n), modifiers and the select list) in every dialect
        for k, (name, first, after) in enumerate(cl):
            if name == "SELECT":
                words = [t[1].upper() for t in toks[after:after + 6] if t[0] == "word" and t[2] == 0]
                if "DISTINCT" in words and words[0] != "DISTINCT":
                    bad.append(("select-prefix", f"DISTINCT is not the first word after SELECT: {sql[:80]}"))
                break
        cm = sqllex.comment_markers(sql, iq, bs)
        if cm and not bs:
            bad.append(("comment-marker", f"...{cm[0]}... in {sql[:120]}"))
        # no alias inside predicates, grouping/sort keys, VALUES rows, DISTINCT ON(...) and conflict targets
        jx = sqllex.predicate_juxtapositions(sql, iq, bs)
        if jx:
            bad.append((f"alias-in-predicate[{jx[0][0]}]".replace(" ", "_"), f"...{jx[0][1]}... in {sql[:120]}"))
        # a clause keyword is followed by a body (the generator never asks for an empty clause)
        for k, (name, first, after) in enumerate(cl):
            if name in NEEDS_BODY:
                nxt = cl[k + 1][1] if k + 1 < len(cl) else len(toks)
                if after >= nxt:
                    bad.append(("empty-clause", f"{name} has no body in {sql[:100]}"))
                    break
        final = upto == len(prefixes) - 1 and upto == len(merge)
        if cls == "SQLLiteQuery" and (prog["mode"] == "main" or final) and not (set(ms) & SQLITE_UNSUPPORTED):
            # (scheduled-entry and cross-actor programs: only the final state, in which every source is in place)
            if ms["into"] and ms["select"] and prog["kind"] == "select":
                continue
            stats["sqlite_prepared"] += 1
            err = sqlite_parse_error(sql)
            if err:
                bad.append(("sqlite-parse[aliased-target]" if prog.get("aliased_target") else "sqlite-parse",
                            f"{err}: {sql[:120]}"))
    return bad


# ------------------------------------------------------------------ accumulation (oracle b)
LIST_CLAUSE = {"select": "SELECT", "groupby": "GROUP BY", "orderby": "ORDER BY", "set": "SET"}


def accumulation(prog, L, okw, stats):
    """Same-clause calls accumulate in call order / conjoin / last-wins, judged on the canonical order."""
    bad = []
    cls = prog["cls"]
    ctx = L.CTX[cls]
    iq = "`" if cls == "MySQLQuery" else '"'
    bs = cls == "MySQLQuery"
    if prog["mode"] != "main":
        return bad
    for ai, actor in enumerate(prog["actors"]):
        ms = [c["m"] for c in actor["calls"]]
        for m, clause in LIST_CLAUSE.items():
            idx = [i for i, c in enumerate(actor["calls"]) if c["m"] == m]
            if len(idx) < 2:
                continue
            if m == "select" and prog["entry"].get("m") == "select":
                continue  # the entry point's own select item is part of every partial statement
            if m == "select" and any((isinstance(x, str) and x == "*") or (isinstance(x, dict) and x.get("t") == "star")
                                     for c in actor["calls"] for x in c.get("a", [])):
                continue  # a star absorbs other items (documented), judged by commutation only
            # full statement vs statements in which only ONE unit of this clause is delivered; a unit is one call,
            # or (GROUP BY) a maximal run of adjacent non-MySQL rollup() calls, which by documentation merge into one item
            units = [[i] for i in idx]
            if m == "groupby":
                if any(c["m"] == "rollup" and (c.get("kw") or {}).get("vendor") == "mysql" for c in actor["calls"]):
                    continue
                idx = [i for i, c in enumerate(actor["calls"]) if c["m"] in ("groupby", "rollup")]
                units = []
                for i in idx:
                    if actor["calls"][i]["m"] == "rollup" and units and actor["calls"][units[-1][-1]]["m"] == "rollup" \
                            and units[-1][-1] == i - 1:
                        units[-1].append(i)
                    else:
                        units.append([i])
                if len(units) < 2:
                    continue
            full = items_with(prog, ai, set(idx), clause, ctx, iq, bs)
            if full is None:
                continue
            parts = []
            ok = True
            for u in units:
                it = items_with(prog, ai, set(u), clause, ctx, iq, bs)
                if it is None:
                    ok = False
                    break
                parts += it
            if not ok:
                continue
            stats["accumulation_checked"] += 1
            if full != parts:
                bad.append(("accumulate", m, f"{clause}: {full} != concatenation {parts}"))
        # conjoin
        for m in ("where", "having", "prewhere"):
            idx = [i for i, c in enumerate(actor["calls"]) if c["m"] == m]
            if len(idx) >= 2 and actor["group"] in ("where", "having", "prewhere"):
                conj = actor["calls"][idx[0]]["a"][0]
                for i in idx[1:]:
                    conj = {"t": "bin", "op": "and", "l": conj, "r": actor["calls"][i]["a"][0]}
                p2 = dict(prog)
                p2["actors"] = [dict(a) for a in prog["actors"]]
                p2["actors"][ai] = {"group": actor["group"], "calls": [{"m": m, "a": [conj]}]}
                a1 = outcome(prog, canonical(prog), okw)
                a2 = outcome(p2, canonical(p2), okw)
                stats["conjoin_checked"] += 1
                if a1 != a2:
                    bad.append(("accumulate", m, "repeated calls differ from one call with the conjunction"))
        # last wins
        if actor["group"] == "page":
            lims = [i for i, c in enumerate(actor["calls"]) if c["m"] in ("limit", "fetch_next")]
            offs = [i for i, c in enumerate(actor["calls"]) if c["m"] == "offset"]
            if (len(lims) >= 2 or len(offs) >= 2) and not any(c["m"] == "slice" for c in actor["calls"]):
                keep = ([lims[-1]] if lims else []) + ([offs[-1]] if offs else [])
                p2 = dict(prog)
                p2["actors"] = [dict(a) for a in prog["actors"]]
                p2["actors"][ai] = {"group": "page", "calls": [actor["calls"][i] for i in sorted(keep)]}
                stats["lastwins_checked"] += 1
                if outcome(prog, canonical(prog), okw) != outcome(p2, canonical(p2), okw):
                    bad.append(("accumulate", "limit/offset", "repeated limit/offset is not last-wins"))
    return bad


def items_with(prog, ai, keep_idx, clause, ctx, iq, bs):
    p2 = dict(prog)
    p2["actors"] = [dict(a) for a in prog["actors"]]
    calls = prog["actors"][ai]["calls"]
    p2["actors"][ai] = {"group": prog["actors"][ai]["group"], "calls": [c for i, c in enumerate(calls) if i in keep_idx]}
    if clause == "SELECT":
        # keyword flags of the SELECT clause would prefix the first item: judge the list without them
        p2["actors"] = [a if a["group"] not in ("distinct", "top", "modifier", "distinct_on") else {"group": a["group"], "calls": []}
                        for a in p2["actors"]]
    head, err, _ = run_merge(p2, canonical(p2))
    if err is not None or head is None:
        return None
    try:
        sql = head.get_sql(ctx)
        return sqllex.clause_items(sql, clause, iq, bs)
    except Exception:  # noqa: BLE001
        return None


# ------------------------------------------------------------------ one run
# ------------------------------------------------------------------ population mode: riders over rich statements
def population_kind(o):
    d = lib.state(o)
    if not isinstance(d, dict):
        return None
    if sum(1 for k in ("_insert_table", "_update_table") if d.get(k) is not None) + (1 if d.get("_delete_from") else 0) > 1:
        return None  # a chain that switched statement kind (insert(...).delete()): no order table applies
    if d.get("_insert_table") is not None and not d.get("_select_into"):
        return "insert"
    if d.get("_update_table") is not None:
        return "update"
    if d.get("_delete_from"):
        return "delete"
    if d.get("_returns") or d.get("_on_conflict"):
        return None  # returning() / on_conflict() on what renders as a SELECT: no order table applies
    return "select"


def population_riders(L, o, kd):
    """Balance and clause-order riders on ONE rendered statement built by the general-purpose generator (nested
    functions, CASE, JSON, arrays, intervals, sub-queries in every position, strings with quotes and backslashes)."""
    cls = type(o).QUERY_CLS.__name__ if hasattr(type(o), "QUERY_CLS") else "Query"
    if cls not in L.CTX:
        return cls, None, []
    ctx = L.CTX[cls]
    iq = "`" if cls == "MySQLQuery" else '"'
    bs = cls == "MySQLQuery"
    try:
        sql = o.get_sql(ctx)
    except Exception:  # noqa: BLE001  raising at render is C14's business
        return cls, None, []
    if not sql:
        return cls, sql, []
    bad = []
    try:
        toks, cl = sqllex.top_clauses(sql, iq, bs, calls_are_terms=True)
    except sqllex.LexError as e:
        name = "balance"
        if bs and "\\'" in sql:
            # MySQL: a backslash directly before the closing quote of a literal (the generic value wrapper, chosen when
            # the value was wrapped, does not double backslashes)
            name = "balance[backslash-quote]"
        return cls, sql, [(name, f"{e}: {sql[:160]}")]
    cm = sqllex.comment_markers(sql, iq, bs)
    if cm and not bs:  # MySQL needs white space after "--" for a comment
        bad.append(("comment-marker", f"...{cm[0]}... in {sql[:160]}"))
    # an alias rendered inside a predicate-like clause (of the statement or of a nested SELECT) is never grammatical
    jx = sqllex.predicate_juxtapositions(sql, iq, bs)
    if jx:
        bad.append((f"alias-in-predicate[{jx[0][0]}]".replace(" ", "_"), f"...{jx[0][1]}...  in {sql[:160]}"))
    if kd == "qb":
        kind = population_kind(o)
        table = order_table(cls, kind) if kind else None
        if table is not None:
            names = [c[0] for c in cl]
            miss = check_order_at(names, table)
            if miss is not None:
                # named by where it happens (SET>SELECT: a second SELECT keyword at the top level right after SET)
                bad.append((f"clause-order[{miss[1]}>{miss[0]}]".replace(" ", "_"),
                            f"{miss[0]} out of place or repeated after {miss[1]} in {' > '.join(names)}: {sql[:160]}"))
    return cls, sql, bad


def _spec_classes(x, out=None):
    """Names of the query classes mentioned anywhere in a spec."""
    out = set() if out is None else out
    if isinstance(x, dict):
        if x.get("t") == "cls":
            out.add(x["name"])
        if x.get("t") == "table" and x.get("qc"):
            out.add(x["qc"])
        for v in x.values():
            _spec_classes(v, out)
    elif isinstance(x, list):
        for v in x:
            _spec_classes(v, out)
    return out


def _noparens(sql):
    return sql.replace("(", "").replace(")", "")


def population_program(rng):
    knobs = gen.default_knobs(rng, PROP)
    knobs.update({"nops": rng.randint(2, 6), "p_stmt": 1.0, "focus": rng.choice(["qb", "qb", "setop", "ddl"]),
                  "p_new": 0.5, "p_leaf": 0.0, "depth": rng.choice([2, 3, 4]), "select_subqueries_only": True,
                  "no_star_leaf": True})  # a star as an operand (x / *) is no expression and spells a comment opener
    if rng.random() < 0.6:
        # one dialect and many by-reference arguments: SELECTs of the heap embedded in parents of their own class
        knobs["qcls"] = [rng.choice(QCLS + ["SQLLiteQuery", "SQLLiteQuery"])]
        knobs["p_ref"] = 0.7
    env = lang.Env(share_tables=knobs["share_tables"])
    g = gen.Gen(rng, knobs, env)
    from . import engine
    for _ in range(knobs["nops"]):
        i = g.next_op()
        env.heap.append(engine.exec_op(env, g.program[i]))
    if rng.random() < 0.6:
        # a plain SELECT with the clauses every dialect has (and, half of the time, a WITH clause) as one more candidate
        gg = G(rng)
        C0 = {"t": "cls", "name": rng.choice(knobs["qcls"])}
        q = {"t": "meth", "x": {"t": "meth", "x": C0, "m": "from_", "a": [TC]}, "m": "select",
             "a": [F(TC, "x", alias=rng.choice([None, "k1"])), F(TC, "y")]}
        if rng.random() < 0.6:
            q = {"t": "meth", "x": q, "m": "where", "a": [gg.crit(TC)]}
        if rng.random() < 0.3:
            # a numbered placeholder and an array: text that depends on the dialect the statement is rendered in
            q = {"t": "meth", "x": q, "m": "where", "a": [{"t": "bin", "op": "and",
                 "l": {"t": "bin", "op": "eq", "l": F(TC, "z"), "r": {"t": "new", "c": "Parameter", "kw": {"idx": 1}}},
                 "r": {"t": "bin", "op": "eq", "l": F(TC, "y"), "r": [1, 2]}}]}
        if rng.random() < 0.5:
            q = {"t": "meth", "x": q, "m": "with_", "a": [gg.subq(C0["name"]), "cte9"]}
        if rng.random() < 0.3:
            q = {"t": "meth", "x": q, "m": "orderby", "a": [F(TC, "x")]}
        if rng.random() < 0.3:
            q = {"t": "meth", "x": q, "m": "limit", "a": [5]}
        k = g.emit({"op": "new", "x": q})
        env.heap.append(engine.exec_op(env, g.program[k]))
    # parents that embed a SELECT of the heap in the positions that are rendered with aliases switched on
    sels = [i for i, v in enumerate(env.heap) if engine.is_object_slot(v) and obs.kind_of(g.L, v) == "qb"
            and population_kind(v) == "select" and lib.state(v).get("_selects")]
    for _ in range(rng.randint(0, 2) if sels else 0):
        i = sels[rng.randrange(len(sels))]
        S = {"t": "var", "i": i}
        C = {"t": "cls", "name": type(env.heap[i]).QUERY_CLS.__name__}
        how = rng.choice(["select", "from", "join", "in", "values", "ctas", "insert_select", "setop_item"])
        if how == "select":
            x = {"t": "meth", "x": {"t": "meth", "x": C, "m": "from_", "a": [TB]}, "m": "select", "a": [F(TB, "x"), S]}
        elif how == "from":
            x = {"t": "meth", "x": {"t": "meth", "x": C, "m": "from_", "a": [{"t": "meth", "x": S, "m": "as_", "a": ["sj"]}]},
                 "m": "select", "a": ["*"]}
        elif how == "join":
            sub = {"t": "meth", "x": S, "m": "as_", "a": ["sj"]}
            x = {"t": "meth", "x": {"t": "join", "x": {"t": "meth", "x": C, "m": "from_", "a": [TB]}, "item": sub, "how": None,
                                    "fin": "cross", "a": []}, "m": "select", "a": [F(TB, "x")]}
        elif how == "setop_item":
            # S as an operand of a set operation that is itself a select item of the parent
            other = {"t": "meth", "x": {"t": "meth", "x": C, "m": "from_", "a": [TB]}, "m": "select",
                     "a": [F(TB, "x")] * max(1, len(lib.state(env.heap[i]).get("_selects") or [1]))}
            x = {"t": "meth", "x": {"t": "meth", "x": C, "m": "from_", "a": [TB]}, "m": "select",
                 "a": [F(TB, "x"), {"t": "meth", "x": {"t": "meth", "x": S, "m": "as_", "a": ["sj"]} if rng.random() < 0.5 else S,
                                    "m": rng.choice(["union", "union_all", "intersect"]), "a": [other]}]}
        elif how == "ctas":
            x = {"t": "meth", "x": {"t": "meth", "x": C, "m": "create_table", "a": ["t_new"]}, "m": "as_select", "a": [S]}
        elif how == "insert_select":
            x = {"t": "meth", "x": {"t": "meth", "x": {"t": "meth", "x": C, "m": "into", "a": [TB]}, "m": "from_",
                                    "a": [{"t": "meth", "x": S, "m": "as_", "a": ["sj"]}]}, "m": "select", "a": ["*"]}
        elif how == "values":
            # a scalar sub-query as a VALUES item; it may carry an alias (its own, or the automatic one it got as
            # somebody's FROM source)
            x = {"t": "meth", "x": {"t": "meth", "x": C, "m": "into", "a": [TB]}, "m": "insert",
                 "a": [1, {"t": "meth", "x": S, "m": "as_", "a": ["sj"]} if rng.random() < 0.5 else S]}
        else:
            x = {"t": "meth", "x": {"t": "meth", "x": {"t": "meth", "x": C, "m": "from_", "a": [TB]}, "m": "select", "a": [F(TB, "x")]},
                 "m": "where", "a": [{"t": "meth", "x": F(TB, "y"), "m": "isin", "a": [S]}]}
        k = g.emit({"op": "new", "x": x})
        env.heap.append(engine.exec_op(env, g.program[k]))
        knobs.setdefault("_parents", []).append(k)
        if how in ("ctas", "insert_select"):
            knobs.setdefault("_templates", []).append((k, i))
    return g.program, env, knobs


def population_run(seed, run, rng):
    from . import engine, shrink
    L = lib.get()
    program, env, knobs = population_program(rng)

    class g_parents:  # indices of the template parents appended by population_program
        idx = set(knobs.pop("_parents", ()))
        templates = list(knobs.pop("_templates", ()))
    res = {"run": run, "config": "population", "violations": [], "harness": [], "discard": None, "merges": 0,
           "calls": len(program), "actors": 0, "stats": collections.Counter(), "shape": None, "nontrivial": True,
           "kind": "population", "cls": "*", "groups": []}
    trail = []
    for i, v in enumerate(env.heap):
        if not engine.is_object_slot(v):
            continue
        kd = obs.kind_of(L, v)
        if kd not in ("qb", "setop", "create", "drop", "load"):
            continue
        cls, sql, bad = population_riders(L, v, kd)
        if sql is None:
            continue
        res["stats"]["population_statements"] += 1
        trail.append(sql)
        for name, detail in bad:
            sig = f"{PROP}:rider:{name}:population" if name.startswith(("clause-order", "alias-in-predicate", "comment-marker")) \
                else f"{PROP}:rider:{name}:{cls}:population"
            if any(x["signature"] == sig for x in res["violations"]):
                continue
            keep = sorted(lang.cone(program, i))
            p2, mp = shrink.slice_program(program, keep)
            res["violations"].append({"signature": sig, "payload": {
                "property": PROP, "seed": seed, "run": run, "signature": sig, "kind": "population", "program": p2,
                "victim": mp[i], "share_tables": knobs["share_tables"], "rider": name, "detail": detail}})
    # context independence of a sub-query's text: a SELECT of the heap that another statement takes as an ARGUMENT
    # (FROM / JOIN source, scalar or IN sub-query, CTE, operand) must appear in that statement verbatim, i.e. exactly as
    # it renders on its own under the same dialect context - whatever clause of the parent it sits in
    for j, op in enumerate(program):
        P = env.heap[j]
        if op["op"] not in ("call", "join", "new") or not engine.is_object_slot(P) or obs.kind_of(L, P) != "qb":
            continue
        args = set(lang.spec_vars([op.get(k) for k in ("x", "a", "kw", "item") if k in op]))
        args.discard(op.get("r"))
        if _spec_classes([op.get(k) for k in ("x", "a", "kw", "item") if k in op]) - {type(P).QUERY_CLS.__name__}:
            continue  # an inline statement of another dialect may sit between P and its argument and adjust the context
        for i in sorted(args):
            S = env.heap[i]
            if not engine.is_object_slot(S) or obs.kind_of(L, S) != "qb" or population_kind(S) != "select" \
                    or not lib.state(S).get("_selects"):
                continue
            cls = type(P).QUERY_CLS.__name__ if hasattr(type(P), "QUERY_CLS") else "Query"
            if cls not in L.CTX or type(S) is not type(P):
                continue  # a parent builder of another dialect adjusts the context it hands down (groupby_alias, ...)
            try:
                outer = P.get_sql(L.CTX[cls])
                inner = S.get_sql(L.CTX[cls].copy(with_alias=False, subquery=False))
            except Exception:  # noqa: BLE001
                continue
            if not outer or not inner:
                continue
            # brackets are not compared: under NOT (...) the library parenthesises nested compound criteria once more
            # (ctx.subcriterion reaches the sub-query), which is well-formed and means the same
            inner_n, outer_n = _noparens(inner), _noparens(outer)
            if "(" + inner[:min(24, len(inner))] not in outer:
                continue  # the argument is not part of the parent's text as a bracketed sub-query (dropped, or the
                #           parent merely begins like it because it was derived from the same receiver)
            res["stats"]["subquery_embeddings_compared"] += 1
            if cls == "SQLLiteQuery" and j in getattr(g_parents, "idx", ()) and sqlite_parse_error(inner) is None \
                    and not sqllex.predicate_juxtapositions(inner, '"', False):
                # (a SELECT that already shows the known alias-in-predicate family is not judged again here)
                # SQLite accepts the SELECT on its own, and the parent around it is a plain template: it must accept both
                res["stats"]["sqlite_nested_prepared"] += 1
                err = sqlite_parse_error(outer)
                if err:
                    sig = f"{PROP}:rider:sqlite-parse-nested:population"
                    if not any(x["signature"] == sig for x in res["violations"]):
                        keep = sorted(lang.cone(program, j))
                        p2, mp = shrink.slice_program(program, keep)
                        res["violations"].append({"signature": sig, "payload": {
                            "property": PROP, "seed": seed, "run": run, "signature": sig, "kind": "population-nested",
                            "program": p2, "victim": mp[j], "sub": mp[i], "share_tables": knobs["share_tables"],
                            "rider": "sqlite-parse-nested", "detail": f"{err}: {outer[:300]}"}})
            if inner_n not in outer_n:
                # the bracketed text that begins like S may be ANOTHER statement of the heap that P really embeds (an
                # ancestor or sibling of S, with the same first clauses) while S itself was dropped: not S's business
                rival = False
                for i2, T in enumerate(env.heap):
                    if i2 == i or not engine.is_object_slot(T) or obs.kind_of(L, T) != "qb" or type(T) is not type(S):
                        continue
                    try:
                        t_n = _noparens(T.get_sql(L.CTX[cls].copy(with_alias=False, subquery=False)))
                    except Exception:  # noqa: BLE001
                        continue
                    if t_n and t_n[:24] == inner_n[:24] and t_n in outer_n:
                        rival = True
                        break
                if rival:
                    continue
                sig = f"{PROP}:rider:subquery-context:population"
                if any(x["signature"] == sig for x in res["violations"]):
                    continue
                keep = sorted(lang.cone(program, j))
                p2, mp = shrink.slice_program(program, keep)
                res["violations"].append({"signature": sig, "payload": {
                    "property": PROP, "seed": seed, "run": run, "signature": sig, "kind": "population-context",
                    "program": p2, "victim": mp[j], "sub": mp[i], "share_tables": knobs["share_tables"],
                    "rider": "subquery-context",
                    "detail": f"on its own: {inner[:200]}  |  inside the parent: {outer[:300]}"}})
    # CREATE TABLE ... AS <S>, INSERT ... SELECT * FROM (<S>): parents of other statement kinds
    for j, i in g_parents.templates:
        P, S = env.heap[j], env.heap[i]
        if not (engine.is_object_slot(P) and engine.is_object_slot(S)) or type(S).__name__ != "SQLLiteQueryBuilder":
            continue
        ctx = L.CTX["SQLLiteQuery"]
        try:
            outer = P.get_sql(ctx)
            inner = S.get_sql(ctx.copy(with_alias=False, subquery=False))
        except Exception:  # noqa: BLE001
            continue
        if not outer or not inner or sqlite_parse_error(inner) is not None or sqllex.predicate_juxtapositions(inner, '"', False):
            continue
        res["stats"]["sqlite_nested_prepared"] += 1
        err = sqlite_parse_error(outer)
        if err:
            sig = f"{PROP}:rider:sqlite-parse-nested:population"
            if not any(x["signature"] == sig for x in res["violations"]):
                keep = sorted(lang.cone(program, j))
                p2, mp = shrink.slice_program(program, keep)
                res["violations"].append({"signature": sig, "payload": {
                    "property": PROP, "seed": seed, "run": run, "signature": sig, "kind": "population-nested",
                    "program": p2, "victim": mp[j], "sub": mp[i], "share_tables": knobs["share_tables"],
                    "rider": "sqlite-parse-nested", "detail": f"{err}: {outer[:300]}"}})
    res["shape"] = runner.digest([op.get("op") + ":" + str(op.get("m", "")) for op in program])
    res["digest"] = res["xdigest"] = runner.digest([program, trail])
    return res, program


def replay_population(payload):
    from . import engine
    L = lib.get()
    env = engine.execute(payload["program"], share_tables=payload.get("share_tables", True))
    v = env.heap[payload["victim"]]
    if not engine.is_object_slot(v):
        return False, "not reproduced (victim did not build)"
    _, _, bad = population_riders(L, v, obs.kind_of(L, v))
    if any(name == payload["rider"] for name, _ in bad):
        return True, payload["signature"]
    return False, "not reproduced"


def replay_population_context(payload):
    from . import engine
    L = lib.get()
    env = engine.execute(payload["program"], share_tables=payload.get("share_tables", True))
    P, S = env.heap[payload["victim"]], env.heap[payload["sub"]]
    if not (engine.is_object_slot(P) and engine.is_object_slot(S)):
        return False, "not reproduced (objects did not build)"
    cls = type(P).QUERY_CLS.__name__
    outer = P.get_sql(L.CTX[cls])
    inner = S.get_sql(L.CTX[cls].copy(with_alias=False, subquery=False))
    if "(" + inner[:min(24, len(inner))] in outer and _noparens(inner) not in _noparens(outer):
        return True, payload["signature"]
    return False, "not reproduced"


def replay_population_nested(payload):
    from . import engine
    L = lib.get()
    env = engine.execute(payload["program"], share_tables=payload.get("share_tables", True))
    P, S = env.heap[payload["victim"]], env.heap[payload["sub"]]
    if not (engine.is_object_slot(P) and engine.is_object_slot(S)):
        return False, "not reproduced (objects did not build)"
    ctx = L.CTX["SQLLiteQuery"]
    if sqlite_parse_error(S.get_sql(ctx.copy(with_alias=False, subquery=False))) is None and sqlite_parse_error(P.get_sql(ctx)):
        return True, payload["signature"]
    return False, "not reproduced"


def one_run(seed, run, force_config=None, overrides=None):
    L = lib.get()
    rng = random.Random(gen.derive_seed(seed, run, 0xC13))
    if rng.random() < 0.12:
        return population_run(seed, run, rng)
    g = G(rng)
    prog = g.program()
    okw = {"inprocess": False}
    res = {"run": run, "config": prog["mode"], "violations": [], "harness": [], "discard": None, "merges": 0,
           "calls": sum(len(a["calls"]) for a in prog["actors"]), "actors": len(prog["actors"]),
           "stats": collections.Counter(), "shape": None, "nontrivial": False, "kind": prog["kind"], "cls": prog["cls"],
           "groups": [a["group"] for a in prog["actors"]]}
    can = canonical(prog)
    head, err, prefixes = run_merge(prog, can, keep_prefix=True)
    if err is not None:
        res["discard"] = f"canonical order raises {err[1]} at {err[2]}"
        res["digest"] = res["xdigest"] = runner.digest([prog, res["discard"]])
        return res, prog
    ref = final_obs(head, okw)
    merges = sample_merges(prog, rng, 12) if len(prog["actors"]) >= 2 else []
    res["merges"] = len(merges)
    res["nontrivial"] = len(merges) >= 1
    res["shape"] = runner.digest([prog["cls"], prog["kind"], prog["mode"],
                                  [(a["group"], [c["m"] for c in a["calls"]]) for a in prog["actors"]]])
    trail = [ref]
    seen = set()

    def add(sig, payload):
        if sig not in seen:
            seen.add(sig)
            payload.update({"property": PROP, "seed": seed, "run": run, "signature": sig, "program": prog})
            res["violations"].append({"signature": sig, "payload": payload})

    # (c) riders on every prefix state of the canonical order
    for name, detail in riders(prog, can, prefixes, L, res["stats"]):
        add(f"{PROP}:rider:{name}:{prog['cls']}:{prog['kind']}", {"kind": "rider", "merge": can, "rider": name, "detail": detail})
    # (a) commutation
    for m in merges:
        h2, e2, pf2 = run_merge(prog, m, keep_prefix=True)
        out = {"raised": e2[1]} if e2 is not None else final_obs(h2, okw)
        trail.append(out)
        if e2 is not None and prog["mode"] != "main":
            # an order rejected by a call-time guard (source not yet introduced): C14's domain, not a commutation claim
            res["stats"]["orders_rejected_by_guard"] += 1
            continue
        if out != ref:
            pair, before, after = find_pair(prog, m, okw, ref)
            pname = "~".join(pair) if pair else "unlocated"
            d = obs.diff(out, ref) if isinstance(out, dict) and isinstance(ref, dict) else ["outcome"]
            sig = f"{PROP}:noncommuting:{pname}"
            payload = {"kind": "noncommuting", "merge": m, "canonical": can, "pair": pair,
                       "mode": prog["mode"], "differs_on": d[:6],
                       "observed": {k: out.get(k) for k in d[:2]} if isinstance(out, dict) else out,
                       "expected": {k: ref.get(k) for k in d[:2]}}
            if sig not in seen and sig not in KNOWN:
                # minimise (only for findings that will be reported): fewer actors / calls, same located pair
                try:
                    p2, m2 = minimise_noncommuting(prog, m, okw)
                    pair2, _, _ = find_pair(p2, m2, okw, outcome(p2, canonical(p2), okw))
                    if pair2 == pair:
                        seen.add(sig)
                        payload.update({"property": PROP, "seed": seed, "run": run, "signature": sig, "program": p2,
                                        "merge": m2, "canonical": canonical(p2), "original_calls": res["calls"]})
                        res["violations"].append({"signature": sig, "payload": payload})
                        continue
                except Exception:  # noqa: BLE001
                    pass
            add(sig, payload)
        elif e2 is None:
            for name, detail in riders(prog, m, pf2, L, res["stats"]):
                add(f"{PROP}:rider:{name}:{prog['cls']}:{prog['kind']}",
                    {"kind": "rider", "merge": m, "rider": name, "detail": detail})
    # (b) accumulation
    for kind, m, detail in accumulation(prog, L, okw, res["stats"]):
        add(f"{PROP}:{kind}:{m}", {"kind": "accumulate", "detail": detail})
    res["xdigest"] = runner.digest([prog, merges, trail])
    res["digest"] = res["xdigest"]
    return res, prog


def replay(payload):
    L = lib.get()
    prog = payload["program"]
    okw = {"inprocess": False}
    kind = payload.get("kind")
    if kind == "population":
        return replay_population(payload)
    if kind == "population-context":
        return replay_population_context(payload)
    if kind == "population-nested":
        return replay_population_nested(payload)
    can = canonical(prog)
    if kind == "noncommuting":
        ref = outcome(prog, can, okw)
        out = outcome(prog, payload["merge"], okw)
        if out != ref:
            pair, _, _ = find_pair(prog, payload["merge"], okw, ref)
            return True, f"{PROP}:noncommuting:{'~'.join(pair) if pair else 'unlocated'}"
        return False, "not reproduced"
    if kind == "rider":
        head, err, prefixes = run_merge(prog, payload["merge"], keep_prefix=True)
        if err is not None:
            return False, "not reproduced (merge raises)"
        st = collections.Counter()
        for name, detail in riders(prog, payload["merge"], prefixes, L, st):
            if name == payload["rider"]:
                return True, payload["signature"]
        return False, "not reproduced"
    if kind == "accumulate":
        st = collections.Counter()
        for k, m, detail in accumulation(prog, L, okw, st):
            if f"{PROP}:{k}:{m}" == payload["signature"]:
                return True, payload["signature"]
        return False, "not reproduced"
    return False, "unknown replay kind"


# ------------------------------------------------------------------ batch / evidence
TIERS = {
    "quick": {"runs": 20000, "chunk": 50, "wall_cap": 900},
    "thorough": {"runs": 200000, "chunk": 200, "wall_cap": 5400},
}


KNOWN = runner.known_signatures(PROP)


def batch(task):
    lib.get()
    agg = new_agg()
    if runner.past_deadline():
        return agg  # the tier's soft time budget is used up: no further runs are started
    for run in range(task["lo"], task["hi"]):
        try:
            res, prog = runner.guarded(one_run, 120, task["seed"], run)
        except (runner.RunTimeout, lang.HarnessError) as e:
            agg["harness"].append({"run": run, "why": repr(e)[:200]})
            continue
        fold(agg, res, prog)
        runner.note_violations(sum(1 for v in res["violations"] if v["signature"] not in KNOWN))
        if sum(1 for v in agg["violations"] if v[0] not in KNOWN) >= 40 or runner.stop_requested():
            break
    return agg


def new_agg():
    return {"runs": 0, "discards": 0, "merges": 0, "calls": 0, "harness": [], "violations": [], "shapes": set(),
            "nontrivial_shapes": set(), "configs": collections.Counter(), "samples": [], "stats": collections.Counter(),
            "kinds": collections.Counter(), "classes": collections.Counter(), "groups": collections.Counter(),
            "discard_reasons": collections.Counter()}


def fold(agg, res, prog):
    agg["runs"] += 1
    agg["configs"][res["config"]] += 1
    if res["discard"]:
        agg["discards"] += 1
        agg["discard_reasons"][res["discard"]] += 1
        return
    agg["merges"] += res["merges"]
    agg["calls"] += res["calls"]
    agg["stats"].update(res["stats"])
    agg["kinds"][res["kind"]] += 1
    agg["classes"][res["cls"]] += 1
    agg["groups"].update(res["groups"])
    agg["shapes"].add(res["shape"])
    if res["nontrivial"]:
        agg["nontrivial_shapes"].add(res["shape"])
    if len(agg["samples"]) < 2 and res["nontrivial"] and res["calls"] <= 6:
        agg["samples"].append({"run": res["run"], "program": prog})
    for v in res["violations"]:
        agg["violations"].append((v["signature"], v["payload"], res["run"]))


def merge(aggs):
    out = new_agg()
    for a in aggs:
        for k, v in a.items():
            if isinstance(v, set):
                out[k] |= v
            elif isinstance(v, collections.Counter):
                out[k].update(v)
            elif isinstance(v, list):
                out[k].extend(v)
            else:
                out[k] += v
    return out


ASSUMPTIONS = [
    "only the delivery-order dimension of this technique exists for C13; there is no fault, clock or thread in it",
    "the clause-address table (method -> clause group) and the per-dialect clause-order tables are the harness's, "
    "taken from the vendors' grammars; constructs a dialect has no grammar for are not generated for it",
    "main mode: the entry point is fixed and every term names only sources owned by the entry point or by its own "
    "actor, so the calls commute by the property's own definition; scheduled-entry and cross-actor-reference modes "
    "are where documented call-time state can show (reported by method pair)",
    "sqlite3 3.40 EXPLAIN (prepare only) is the ground truth of the SQLite rider; only parser-class errors count",
    "seeded sampling of merges (<= 12 per program plus the canonical order), not exhaustive",
]


def evidence(agg, tier, seed, wall):
    rate = agg["runs"] / wall * 3600 if wall > 0 else 0
    cov = {
        "evaluations": agg["runs"],
        "distinct_nontrivial": len(agg["nontrivial_shapes"]),
        "rule": "one evaluation = one generated statement program (query class, statement kind, 1-9 clause actors with "
                "FIFO call queues) delivered under its canonical order and up to 12 sampled merges of the queues; "
                "distinct = distinct (class, kind, mode, actor/method layout); non-trivial = at least two actors, i.e. "
                "at least one merge different from the canonical order was executed; 12 % of the evaluations are "
                "'population' runs instead: 2-6 ops of the general-purpose generator (complete statements with nested "
                "terms and sub-queries), every resulting statement rendered in its own dialect and put through the "
                "balance and clause-order riders",
        "samples": agg["samples"][:2] or [{"note": "no short sample in this batch"}],
        "distinct_layouts": len(agg["shapes"]),
        "modes": dict(agg["configs"]),
        "merges_executed_besides_canonical": agg["merges"],
        "calls_delivered_per_canonical_order_total": agg["calls"],
        "statement_kinds": dict(agg["kinds"]),
        "query_classes": dict(agg["classes"]),
        "clause_groups": dict(agg["groups"]),
        "prefix_states_checked_by_riders": agg["stats"].get("states", 0),
        "states_lexed_for_balance_and_clause_order": agg["stats"].get("lexed", 0),
        "population_statements_lexed": agg["stats"].get("population_statements", 0),
        "population_subquery_embeddings_compared_with_standalone_text": agg["stats"].get("subquery_embeddings_compared", 0),
        "population_nested_statements_prepared_by_sqlite": agg["stats"].get("sqlite_nested_prepared", 0),
        "sqlite_states_prepared": agg["stats"].get("sqlite_prepared", 0),
        "accumulation_list_checks": agg["stats"].get("accumulation_checked", 0),
        "accumulation_conjoin_checks": agg["stats"].get("conjoin_checked", 0),
        "accumulation_lastwins_checks": agg["stats"].get("lastwins_checked", 0),
        "states_that_raise_at_render_left_to_C14": agg["stats"].get("render_raises", 0),
        "discarded_programs_canonical_order_raises": agg["discards"],
        "discard_reasons": dict(agg["discard_reasons"].most_common(8)),
        "runs_per_hour": int(rate),
        "faults_fired": {},
        "fault_dimension": "none exists for this property (stated in DESIGN.md); schedules only",
        "components": {"real": ["pypika_tortoise (whole package)", "sqlite3 3.40 parser"], "stubbed": [],
                       "harness_doubles": ["clause actors"]},
    }
    return cov, ASSUMPTIONS, None

"""Parallel seeded runner, known-findings handling, evidence writer."""
from __future__ import annotations

import concurrent.futures as cf
import faulthandler
import hashlib
import json
import multiprocessing as mp
import os
import sys
import time

VERIF = os.path.dirname(os.path.dirname(os.path.abspath(__file__)))
REPLAYS = os.environ.get("PIKASIM_REPLAY_DIR") or os.path.join(VERIF, "replays")
EVIDENCE = os.environ.get("PIKASIM_EVIDENCE_DIR") or os.path.join(VERIF, "evidence")
KNOWN = os.path.join(VERIF, "known_findings.txt")


def jobs() -> int:
    return max(1, int(os.environ.get("VERIF_JOBS", "16")))


def base_seed() -> int:
    try:
        return int(os.environ.get("VERIF_SEED", "0"))
    except ValueError:
        return 0


def digest(obj) -> str:
    return hashlib.sha256(json.dumps(obj, sort_keys=True, default=str).encode()).hexdigest()[:16]


def shape_of(program) -> str:
    """Hash of the op list with literals abstracted (used for distinct counting)."""

    def ab(s):
        if isinstance(s, dict):
            t = s.get("t")
            if t == "var":
                return "V%d" % s["i"]
            if t == "table":
                return "T"
            if t == "field":
                return "F"
            if t == "v":
                return "L"
            return {k: ab(v) for k, v in sorted(s.items()) if k not in ("alias",)}
        if isinstance(s, list):
            return [ab(x) for x in s]
        if isinstance(s, bool) or s is None:
            return s
        if isinstance(s, (int, float)):
            return "N"
        if isinstance(s, str):
            return "S"
        return "?"

    out = []
    for op in program:
        out.append([op["op"], op.get("m") or op.get("fin") or op.get("mode") or op.get("how"), op.get("r", op.get("o")),
                    ab(op.get("x")), ab(op.get("a")), ab(op.get("item"))])
    return digest(out)


# ------------------------------------------------------------------ known findings
def load_known():
    """[(kind, property, signature, text)] with kind in {'known','fixed'}; read-only at run time."""
    out = []
    if not os.path.exists(KNOWN):
        return out
    for line in open(KNOWN, encoding="utf-8"):
        line = line.strip()
        if not line or line.startswith("#"):
            continue
        kind, _, rest = line.partition(":")
        kind = kind.strip()
        if kind not in ("known", "fixed"):
            continue
        toks = rest.split()
        prop = sig = None
        for t in toks:
            if t.startswith("property="):
                prop = t[len("property="):]
            elif t.startswith("sig="):
                sig = t[len("sig="):]
        out.append((kind, prop, sig, rest.strip()))
    return out


def known_signatures(prop: str) -> dict:
    return {sig: text for kind, p, sig, text in load_known() if kind == "known" and p == prop}


# ------------------------------------------------------------------ early stop across workers
_VIOL = mp.get_context("fork").Value("i", 0)
STOP_AFTER = int(os.environ.get("VERIF_STOP_AFTER", "30"))


def note_violations(n):
    if n:
        with _VIOL.get_lock():
            _VIOL.value += n


_DEADLINE = mp.get_context("fork").Value("d", 0.0)  # wall-clock time after which no further run is started (0 = none)


def set_time_budget(seconds):
    """Soft budget of a tier: on a slow or busy machine the check explores less instead of running into the hard wall
    cap (which is a harness error).  Inherited by the forked workers."""
    import time
    _DEADLINE.value = time.time() + seconds if seconds else 0.0


def past_deadline():
    import time
    return _DEADLINE.value > 0 and time.time() > _DEADLINE.value


def stop_requested():
    """Once enough violations are on record the remaining runs add nothing: the check fails anyway.  Also true once
    the tier's soft time budget is used up."""
    return _VIOL.value >= STOP_AFTER or past_deadline()


# ------------------------------------------------------------------ per-run watchdog
class RunTimeout(Exception):
    pass


def guarded(fn, seconds, *a, **kw):
    """Run fn(*a, **kw) in the worker's main thread under a wall-clock alarm; a run that hangs (e.g. library code
    iterating forever over an ill-typed argument) is reported as a harness error naming the run, never silently."""
    import signal

    def _h(signum, frame):
        raise RunTimeout("run exceeded %ss" % seconds)

    old = signal.signal(signal.SIGALRM, _h)
    signal.setitimer(signal.ITIMER_REAL, seconds)
    try:
        return fn(*a, **kw)
    finally:
        signal.setitimer(signal.ITIMER_REAL, 0)
        signal.signal(signal.SIGALRM, old)


# ------------------------------------------------------------------ parallel map
def _init_worker():
    faulthandler.enable()


def pmap(fn, tasks, njobs=None, wall_cap=None):
    """Run fn over tasks on a fork pool; returns results in task order.  A dead or hung worker
    raises (never a silent pass)."""
    njobs = njobs or jobs()
    if njobs == 1 or len(tasks) <= 1:
        return [fn(t) for t in tasks]
    ctx = mp.get_context("fork")
    res = [None] * len(tasks)
    with cf.ProcessPoolExecutor(max_workers=njobs, mp_context=ctx, initializer=_init_worker) as ex:
        futs = {ex.submit(fn, t): i for i, t in enumerate(tasks)}
        done, pending = cf.wait(futs, timeout=wall_cap)
        if pending:
            for f in pending:
                f.cancel()
            for p in list(ex._processes.values()):  # noqa: SLF001
                try:
                    p.kill()
                except Exception:  # noqa: BLE001
                    pass
            raise TimeoutError(f"{len(pending)} worker task(s) exceeded the wall cap of {wall_cap}s")
        for f in done:
            res[futs[f]] = f.result()
    return res


# ------------------------------------------------------------------ evidence
def write_evidence(prop, tier, seed, coverage, wall_s, violations, assumptions, extra=None):
    os.makedirs(EVIDENCE, exist_ok=True)
    ev = {
        "property_id": prop,
        "tier": tier,
        "seed": seed,
        "level": "exploration",
        "coverage": coverage,
        "assumptions": assumptions,
        "wall_s": round(wall_s, 3),
        "violations": violations,
    }
    if extra:
        ev.update(extra)
    path = os.path.join(EVIDENCE, prop + ".json")
    tmp = path + ".tmp"
    with open(tmp, "w", encoding="utf-8") as f:
        json.dump(ev, f, indent=1, sort_keys=True, default=str)
        f.write("\n")
    os.replace(tmp, path)
    return path


def write_replay(prop, seed, run, payload) -> str:
    os.makedirs(REPLAYS, exist_ok=True)
    path = os.path.join(REPLAYS, f"{prop}-{seed}-{run}-{digest(payload)[:8]}.json")
    with open(path, "w", encoding="utf-8") as f:
        json.dump(payload, f, indent=1, sort_keys=True, default=str)
        f.write("\n")
    return path


class Report:
    """Collects violations of one check invocation and prints the contractual lines."""

    def __init__(self, prop):
        self.prop = prop
        self.known = known_signatures(prop)
        self.known_hit = {}
        self.new = []  # (signature, replay payload)

    def add(self, signature, payload, seed, run):
        if signature in self.known:
            self.known_hit[signature] = self.known_hit.get(signature, 0) + 1
            return
        self.new.append((signature, payload, seed, run))

    def finish(self, max_print=20) -> int:
        for sig in sorted(self.known):
            text = self.known[sig]
            if text.startswith("property="):
                text = text.split(" ", 1)[1] if " " in text else ""
            n_met = self.known_hit.get(sig, 0)
            print(f"KNOWN-FINDING: property={self.prop} {text} "
                  + (f"(met {n_met}x in this run)" if n_met else "(listed; not met in this run)"))
        seen = set()
        n = 0
        for sig, payload, seed, run in self.new:
            if sig in seen:
                continue
            seen.add(sig)
            if n >= max_print:
                break
            path = write_replay(self.prop, seed, run, payload)
            print(f"VIOLATION property={self.prop} replay={path}")
            print(f"  signature: {sig}")
            print(f"  replay: ./check replay {path}    as Python: ./check show {path}")
            n += 1
        sys.stdout.flush()
        return 1 if self.new else 0

"""Program slicing and minimisation helpers (ddmin-style, dependency aware)."""
from __future__ import annotations

import copy

from .lang import cone, op_deps


def remap_spec(s, m):
    if isinstance(s, dict):
        if s.get("t") == "var":
            return {"t": "var", "i": m[s["i"]]}
        return {k: remap_spec(v, m) for k, v in s.items()}
    if isinstance(s, list):
        return [remap_spec(v, m) for v in s]
    return s


def slice_program(program, keep):
    """Sub-program of the ops in `keep` (must be closed under dependencies), re-indexed.
    Returns (new_program, mapping old->new)."""
    keep = sorted(set(keep))
    m = {old: new for new, old in enumerate(keep)}
    out = []
    for old in keep:
        op = program[old]
        n = {}
        for k, v in op.items():
            if k in ("r", "o") and v is not None:
                n[k] = m[v]
            elif k in ("x", "a", "kw", "item", "how", "panel"):
                n[k] = remap_spec(v, m)
            elif k == "alias_fx":
                n[k] = [[m[d], alias] for d, alias in v if d in m]
            else:
                n[k] = copy.deepcopy(v)
        out.append(n)
    return out, m


def closure(program, idxs):
    need = set()
    for i in idxs:
        need |= set(cone(program, i))
    return need


def dependents(program, i, within):
    """Ops in `within` that transitively depend on i (including i)."""
    out = {i}
    for j in sorted(within):
        if j <= i:
            continue
        if any(d in out for d in op_deps(program[j])):
            out.add(j)
    return out


def minimise_extra(program, base, extra, still_fails):
    """Greedy 1-minimal subset M of `extra` such that still_fails(base | M) holds.
    Removing an op removes the ops of `extra` that depend on it."""
    cur = set(extra)
    changed = True
    while changed:
        changed = False
        for j in sorted(cur, reverse=True):
            if j not in cur:
                continue
            rm = dependents(program, j, cur) & cur
            trial = cur - rm
            # keep dependency closure inside base|trial
            ok = all(all((d in base or d in trial) for d in op_deps(program[t])) for t in trial)
            if not ok:
                continue
            if still_fails(set(base) | trial):
                cur = trial
                changed = True
    return cur


def roots(program, idxs):
    """Ops of idxs on which no other op of idxs depends."""
    idxs = set(idxs)
    used = set()
    for j in idxs:
        for d in op_deps(program[j]):
            if d in idxs:
                used.add(d)
    return sorted(idxs - used)

"""Heap execution of programs, linear-rebuild reference model and slot comparison."""
from __future__ import annotations

import copy
import pickle

from . import lib
from .lang import Env, Failed, HarnessError, InjectedError, InjectedFault, Skipped, Value, cone, op_deps
from .obs import _norm_value, _panel, _try, diff, observe


class MutableAlias:
    """Slot content: this slot is the same (mutable-mode) object as slot `root`."""

    __slots__ = ("root", "failed")

    def __init__(self, root, failed=None):
        self.root = root
        self.failed = failed  # the in-place call raised (it may have taken partial effect: no atomicity promised)


def _deref(env, i):
    v = env.heap[i]
    while isinstance(v, MutableAlias):
        v = env.heap[v.root]
    return v


class RawParams(list):
    """A parameter list as the library returned it; normalised to plain data AFTER the op's fault window closed."""


def normalise(L, x):
    if isinstance(x, RawParams):
        return _norm_value(L, list(x))
    if isinstance(x, list):
        return [normalise(L, y) for y in x]
    return x


class FaultWindow:
    """Whole-op faults (sequential configurations): a faulty leaf armed, or the recursion limit lowered, for exactly
    the library call of one op - not for the harness code around it."""

    def __init__(self, env, spec):
        self.env, self.spec, self.fired = env, spec, False

    def __enter__(self):
        sp = self.spec
        if sp is None:
            return self
        if sp["kind"] == "leaf_exc":
            st = self.env.leaf_state
            st.armed, st.calls, st.fire_at = True, 0, sp["at"]
        elif sp["kind"] == "recursion":
            import sys
            depth = 0
            f = sys._getframe()
            while f is not None:
                depth += 1
                f = f.f_back
            self.old = sys.getrecursionlimit()
            sys.setrecursionlimit(depth + sp["limit"])
        return self

    def __exit__(self, et, ev, tb):
        sp = self.spec
        if sp is None:
            return False
        if sp["kind"] == "leaf_exc":
            st = self.env.leaf_state
            self.fired = st.calls >= st.fire_at and et is not None and issubclass(et, RuntimeError)
            st.armed = False
        elif sp["kind"] == "recursion":
            import sys
            sys.setrecursionlimit(self.old)
            self.fired = et is not None and issubclass(et, RecursionError)
        return False


# -------------------------------------------------------------------------- read events
def do_render(env: Env, o, op):
    """A read event on object o; returns plain data."""
    L = env.L
    mode = op["mode"]
    ctx = L.CTX[op.get("ctx", "Query")]
    if mode == "sql":
        return o.get_sql(ctx)
    if mode == "sql_flags":
        return o.get_sql(ctx.copy(with_alias=True, with_namespace=True, subquery=True))
    if mode == "sql_default":
        return o.get_sql()
    if mode == "par":
        if isinstance(o, L.queries.QueryBuilder):
            sql, vals = o.get_parameterized_sql(ctx)
            return [sql, RawParams(vals)]
        p = L.terms.Parameterizer()
        sql = o.get_sql(ctx.copy(parameterizer=p))
        return [sql, RawParams(p.values)]
    if mode == "par_own":
        # caller-owned parameterizer that already holds k values: the render may only append
        fail_at = op.get("fail_at")
        if fail_at:
            # the caller's own placeholder factory raises on its k-th call (a fault the CALLER injects into a render)
            seen = [0]

            def factory(i):
                seen[0] += 1
                if seen[0] >= fail_at:
                    raise InjectedError("placeholder factory failed at value %d" % i)
                return ":v%d" % i
            p = L.terms.Parameterizer(placeholder_factory=factory)
        else:
            p = L.terms.Parameterizer()
        pre = op.get("pre", 0)
        for j in range(pre):
            p.values.append("pre%d" % j)
        c2 = ctx.copy(parameterizer=p)
        if isinstance(o, L.queries.QueryBuilder):
            sql, vals = o.get_parameterized_sql(c2)
            same = vals is p.values
        else:
            sql = o.get_sql(c2)
            same = True
        return [sql, RawParams(p.values), same]
    if mode == "str":
        return str(o)
    if mode == "repr":
        return repr(o) if type(o).__repr__ is not object.__repr__ else "<default repr>"
    if mode == "hash":
        hash(o)
        hash(o)
        return "hashed"  # the value itself is process-dependent; the event matters for its side effects
    if mode == "eq":
        return [[n, bool(o == p), bool(o != p)] for n, p in _panel(L)]
    if mode == "agg":
        return repr(o.is_aggregate)
    if mode == "tables":
        return sorted(str(t) for t in o.tables_)
    if mode == "fields":
        nctx = L.context.DEFAULT_SQL_CONTEXT.copy(with_namespace=True, with_alias=True)
        return sorted(f.get_sql(nctx) for f in o.fields_())
    raise HarnessError("bad render mode " + mode)


def do_dup(env: Env, o, op):
    how = op["how"]
    if how == "copy":
        return copy.copy(o)
    if how == "deepcopy":
        return copy.deepcopy(o)
    if how == "pickle":
        return pickle.loads(pickle.dumps(o, protocol=op.get("proto", pickle.HIGHEST_PROTOCOL)))
    if how == "identity":
        return o
    raise HarnessError("bad dup " + how)


# -------------------------------------------------------------------------- op execution
def exec_op(env: Env, op, dup_identity=False, op_fault=None):
    """Execute one op against env and return the slot content (never raises library errors)."""
    k = op["op"]
    L = env.L
    r = None
    win = FaultWindow(env, op_fault)
    env.last_op_fault = None
    for d in op_deps(op):
        v = _deref(env, d)
        if isinstance(v, (Failed, Skipped, Value)):
            return Skipped()
    try:
        if k == "new":
            stage = "args"
            return env.ev(op["x"])
        if k == "call":
            stage = "args"
            r = _deref(env, op["r"])
            a = [env.ev(y) for y in op.get("a", [])]
            kw = {kk: env.ev(v) for kk, v in op.get("kw", {}).items()}
            stage = "call"
            with win:
                res = getattr(r, op["m"])(*a, **kw)
            if res is r:
                # the call returned its receiver (in-place mutable-mode call, or a method that returns self):
                # the slot IS that object; it is judged through the receiver's slot
                return MutableAlias(op["r"])
            return res
        if k == "join":
            stage = "args"
            r = _deref(env, op["r"])
            item = env.ev(op["item"])
            how = env.ev(op["how"]) if op.get("how") is not None else None
            a = [env.ev(y) for y in op.get("a", [])]
            kw = {kk: env.ev(v) for kk, v in op.get("kw", {}).items()}
            stage = "call"
            with win:
                if op.get("via"):
                    j = getattr(r, op["via"])(item)  # inner_join / left_join / ... convenience entry points
                else:
                    j = r.join(item, how) if how is not None else r.join(item)
                res = getattr(j, op["fin"])(*a, **kw)
            if res is r and lib.state(r).get("immutable", True) is False:
                return MutableAlias(op["r"])
            return res
        if k == "render":
            stage = "call"
            o = _deref(env, op["o"])
            with win:
                raw = do_render(env, o, op)
            return Value(normalise(L, raw))
        if k == "dup":
            stage = "call"
            o = _deref(env, op["o"])
            if dup_identity:
                return _IdentityDup(op["o"])
            with win:
                return do_dup(env, o, op)
        raise HarnessError("unknown op " + k)
    except (InjectedFault, InjectedError) as e:
        return Failed(type(e).__name__, str(e), injected=True, stage=stage)
    except HarnessError:
        raise
    except Exception as e:  # noqa: BLE001  library exception: a legitimate outcome of the op
        if win.fired:
            env.last_op_fault = op_fault["kind"]
            return Failed(type(e).__name__, str(e)[:200], injected=True, stage=stage)
        if stage == "call" and k in ("call", "join") and r is not None \
                and lib.state(r).get("immutable", True) is False:
            return MutableAlias(op["r"], failed=type(e).__name__)
        return Failed(type(e).__name__, str(e)[:200], stage=stage)


class _IdentityDup:
    """In the reference model dup(v) is the identity on expressions: the slot aliases v."""

    __slots__ = ("root",)

    def __init__(self, root):
        self.root = root


def execute(program, share_tables=True, only=None, env=None, dup_identity=False, on_op=None, dup_fresh=False) -> Env:
    """Run ops in log order.  `only`: set of indices to run (others become Skipped).
    dup_fresh (reference model of programs with recorded alias effects): a duplicate is not the original object but a
    second, independent linear rebuild of the original as it was at the dup's log position - value semantics without
    trusting any copy mechanism, and immune to alias effects that reach the original later."""
    env = env or Env(share_tables=share_tables)
    start = len(env.heap)
    for i in range(start, len(program)):
        if only is not None and i not in only:
            env.heap.append(Skipped())
            apply_alias_fx(env, program[i])
            continue
        v = exec_op(env, program[i], dup_identity=dup_identity)
        if isinstance(v, _IdentityDup) and dup_fresh:
            sub = execute(program[:i], share_tables=share_tables, only=set(cone(program, v.root)), dup_identity=True,
                          dup_fresh=True)
            v = _deref(sub, v.root)
        elif isinstance(v, _IdentityDup):
            v = _deref(env, v.root)
        env.heap.append(v)
        if on_op is not None:
            on_op(env, i)
    return env


def apply_alias_fx(env: Env, op):
    """The ONE permitted interference (C01): an op recorded as having given an automatic alias to an un-aliased
    by-reference argument.  When that op itself is not part of what is being rebuilt, its recorded effect on the
    argument (alias None -> the recorded string, nothing else) is replayed into the model at the op's log position."""
    for d, alias in op.get("alias_fx", ()):
        if 0 <= d < len(env.heap):
            v = env.heap[d]
            if is_object_slot(v) and lib.state(v).get("alias", 0) is None:
                v.alias = alias


def slot_obs(env: Env, i: int, **kw) -> dict:
    v = env.heap[i]
    if isinstance(v, MutableAlias):
        return {"alias_of": v.root, "call_failed": v.failed}
    if isinstance(v, Failed):
        if v.injected:
            return {"injected": True}
        return {"failed": v.exc, "stage": v.stage}
    if isinstance(v, Skipped):
        return {"skipped": True}
    if isinstance(v, Value):
        return {"value": v.v}
    return observe(v, **kw)


def rebuild(program, target: int, share_tables=True, extra=None, dup_fresh=None) -> Env:
    """Linear rebuild: evaluate the cone of `target` from scratch in an empty heap.
    Read events (render) are not part of any object's cone.  dup is the identity."""
    need = set(cone(program, target))
    if extra:
        for e in extra:
            need |= set(cone(program, e))
    fx = any("alias_fx" in op for op in program)
    upto = len(program) if fx else max(need) + 1
    return execute(program[:upto], share_tables=share_tables, only=need, dup_identity=True,
                   dup_fresh=fx if dup_fresh is None else dup_fresh)


def reference_obs(program, target: int, share_tables=True, extra=None, dup_fresh=None, **kw) -> dict:
    env = rebuild(program, target, share_tables, extra=extra, dup_fresh=dup_fresh)
    return slot_obs(env, target, **kw)


def is_object_slot(v) -> bool:
    return not isinstance(v, (Failed, Skipped, Value, MutableAlias))

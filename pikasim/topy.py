"""Render a replay program as plain Python source against the public API (for humans: `./check replay --show`)."""
from __future__ import annotations

_BIN = {"add": "+", "sub": "-", "mul": "*", "div": "/", "pow": "**", "mod": "%", "eq": "==", "ne": "!=", "gt": ">",
        "ge": ">=", "lt": "<", "le": "<=", "and": "&", "or": "|", "xor": "^"}
_UN = {"neg": "-", "not": "~", "pos": "+"}


def spec(s) -> str:
    if s is None or isinstance(s, (bool, int, float)):
        return repr(s)
    if isinstance(s, str):
        return repr(s)
    if isinstance(s, list):
        return "[" + ", ".join(spec(x) for x in s) + "]"
    t = s["t"]
    if t == "var":
        return "v%d" % s["i"]
    if t == "table":
        a = [repr(s["name"])]
        if s.get("schema") is not None:
            a.append("schema=" + spec(s["schema"]))
        if s.get("alias") is not None:
            a.append("alias=" + repr(s["alias"]))
        if s.get("qc"):
            a.append("query_cls=" + s["qc"])
        e = "Table(" + ", ".join(a) + ")"
        if s.get("for") is not None:
            e += ".for_(" + spec(s["for"]) + ")"
        if s.get("forp") is not None:
            e += ".for_portion(" + spec(s["forp"]) + ")"
        return e
    if t == "schema":
        cls = "Database" if s.get("db") else "Schema"
        return f"{cls}({s['name']!r}" + (", " + spec(s["parent"]) if s.get("parent") is not None else "") + ")"
    if t == "field":
        tbl = spec(s["tbl"]) if s.get("tbl") is not None else None
        if s.get("via") == "attr" and tbl:
            e = f"{tbl}.{s['name']}" if s["name"].isidentifier() else f"getattr({tbl}, {s['name']!r})"
        elif s.get("via") == "item" and tbl:
            e = f"{tbl}[{s['name']!r}]"
        else:
            e = f"Field({s['name']!r}" + (f", table={tbl}" if tbl else "") + ")"
        if s.get("alias") is not None:
            e += f".as_({s['alias']!r})"
        return e
    if t == "star":
        if s.get("tbl") is None:
            return "Star()"
        return spec(s["tbl"]) + ".star" if s.get("via") == "prop" else "Star(" + spec(s["tbl"]) + ")"
    if t == "v":
        k, v = s["k"], s.get("v")
        if k in ("int", "str", "float", "bool"):
            return repr(v)
        if k == "none":
            return "None"
        if k == "date":
            return f"datetime.date.fromisoformat({v!r})"
        if k == "datetime":
            return f"datetime.datetime.fromisoformat({v!r})"
        if k == "time":
            return f"datetime.time.fromisoformat({v!r})"
        if k == "uuid":
            return f"uuid.UUID({v!r})"
        if k == "decimal":
            return f"decimal.Decimal({v!r})"
        if k == "list":
            return "[" + ", ".join(spec(x) for x in v) + "]"
        if k == "tuple":
            return "(" + ", ".join(spec(x) for x in v) + ("," if len(v) == 1 else "") + ")"
        if k == "dict":
            return "{" + ", ".join(f"{kk!r}: {spec(vv)}" for kk, vv in v.items()) + "}"
    if t == "bin":
        if s["op"] == "getitem":
            return f"{spec(s['l'])}[{spec(s['r'])}]"
        return f"({spec(s['l'])} {_BIN[s['op']]} {spec(s['r'])})"
    if t == "un":
        return f"({_UN[s['op']]}{spec(s['x'])})"
    if t == "meth":
        return f"{spec(s['x'])}.{s['m']}({_args(s)})"
    if t == "attr":
        return f"{spec(s['x'])}.{s['name']}"
    if t == "cls":
        return s["name"]
    if t == "reg":
        c = s["c"]
        return {"fn.": "functions.", "an.": "analytics."}.get(c[:3], "") + (c[3:] if c[:3] in ("fn.", "an.") else c)
    if t == "new":
        c = s["c"]
        c = {"fn.": "functions.", "an.": "analytics."}.get(c[:3], "") + (c[3:] if c[:3] in ("fn.", "an.") else c)
        return f"{c}({_args(s)})"
    if t == "enum":
        return f"{s['c']}.{s['v']}"
    if t == "const":
        n = s["name"]
        if n.startswith("pseudo."):
            return "pseudocolumns." + n[7:]
        if n.startswith("SqlTypes."):
            return n
        return {"CURRENT_ROW": "analytics.CURRENT_ROW"}.get(n, n)
    if t == "slice":
        return f"slice({s.get('a')!r}, {s.get('b')!r})"
    if t == "leaf":
        return f"FaultyLeaf({s.get('label', 'F')!r})"
    if t == "join":
        j = f"{spec(s['x'])}.join({spec(s['item'])}" + (", " + spec(s["how"]) if s.get("how") is not None else "") + ")"
        return f"{j}.{s['fin']}({_args(s)})"
    return "<?%s>" % t


def _args(s) -> str:
    a = [spec(x) for x in s.get("a", [])]
    a += [f"{k}={spec(v)}" for k, v in (s.get("kw") or {}).items()]
    return ", ".join(a)


HEADER = """import copy, datetime, decimal, pickle, uuid
from pypika_tortoise import *
from pypika_tortoise import analytics, functions, pseudocolumns
from pypika_tortoise.enums import SqlTypes
from pypika_tortoise.queries import Join, JoinOn, JoinUsing, QueryBuilder
from pypika_tortoise.terms import *
from pypika_tortoise.analytics import Preceding, Following
"""


def program(prog, victim=None) -> str:
    out = [HEADER]
    for i, op in enumerate(prog):
        k = op["op"]
        if k == "new":
            line = f"v{i} = {spec(op['x'])}"
        elif k == "call":
            line = f"v{i} = v{op['r']}.{op['m']}({_args(op)})"
        elif k == "join":
            if op.get("via"):
                j = f"v{op['r']}.{op['via']}({spec(op['item'])})"
            else:
                j = f"v{op['r']}.join({spec(op['item'])}" + (", " + spec(op["how"]) if op.get("how") is not None else "") + ")"
            line = f"v{i} = {j}.{op['fin']}({_args(op)})"
        elif k == "render":
            m = op["mode"]
            ctx = op.get("ctx", "Query") + ".SQL_CONTEXT"
            call = {"sql": f"v{op['o']}.get_sql({ctx})", "str": f"str(v{op['o']})", "hash": f"hash(v{op['o']})",
                    "repr": f"repr(v{op['o']})", "par": f"v{op['o']}.get_parameterized_sql({ctx})",
                    "sql_default": f"v{op['o']}.get_sql()", "agg": f"v{op['o']}.is_aggregate",
                    "tables": f"v{op['o']}.tables_", "fields": f"v{op['o']}.fields_()"}.get(
                m, f"v{op['o']}.get_sql({ctx}.copy(...))  # mode {m}")
            line = f"r{i} = {call}"
        elif k == "dup":
            how = op["how"]
            line = (f"v{i} = copy.copy(v{op['o']})" if how == "copy" else f"v{i} = copy.deepcopy(v{op['o']})" if how == "deepcopy"
                    else f"v{i} = pickle.loads(pickle.dumps(v{op['o']}, protocol={op.get('proto', 4)}))")
        else:
            line = f"# op {i}: {k}"
        if op.get("alias_fx"):
            line += "   # gives the automatic alias " + ", ".join(f"{a!r} to v{d}" for d, a in op["alias_fx"])
        if victim is not None and i == victim:
            line += "   # <-- the object (or read) the finding is about"
        out.append(line)
    return "\n".join(out) + "\n"


def c13_program(prog, merge) -> str:
    out = [HEADER, f"q = {spec(prog['entry'])}"]
    pos = [0] * len(prog["actors"])
    for ai in merge:
        c = prog["actors"][ai]["calls"][pos[ai]]
        pos[ai] += 1
        if "fin" in c:
            out.append(f"q = q.join({spec(c['item'])}" + (", " + spec(c["how"]) if c.get("how") is not None else "")
                       + f").{c['fin']}({_args(c)})   # actor {prog['actors'][ai]['group']}")
        else:
            out.append(f"q = q.{c['m']}({_args(c)})   # actor {prog['actors'][ai]['group']}")
    for c in prog.get("tail", ()):
        out.append(f"q = q.{c['m']}({_args(c)})   # delivered after every scheduled call")
    out.append("print(q.get_sql())")
    return "\n".join(out) + "\n"

"""Observation: everything the properties call observable about one object, as plain data.

Never applies ==, in, hasattr or getattr(default) to library objects for bookkeeping
(Term.__eq__ builds a criterion; Table/Schema.__getattr__ answer every name).
"""
from __future__ import annotations

import re

from . import lib
from .lang import InjectedError, InjectedFault


def _norm_value(L, v, depth=0):
    if depth > 6:
        return ["deep", type(v).__name__]
    if isinstance(v, (list, tuple)):
        return [type(v).__name__, [_norm_value(L, x, depth + 1) for x in v]]
    if isinstance(v, dict):
        return ["dict", [[repr(k), _norm_value(L, x, depth + 1)] for k, x in v.items()]]
    if isinstance(v, L.terms.Node) or isinstance(v, L.terms.Term):
        from .lang import quiet_faults
        try:
            with quiet_faults():
                return [type(v).__name__, v.get_sql(L.context.DEFAULT_SQL_CONTEXT)]
        except InjectedError:
            raise  # an injected asynchronous exception is never data: it fails the op it was injected into
        except Exception as e:  # noqa: BLE001
            return [type(v).__name__, "EXC:" + type(e).__name__]
    if v is None or isinstance(v, _PLAIN):
        return [type(v).__name__, repr(v)]
    return [type(v).__name__, "<object>"]  # never a repr that may print an address


import datetime as _dt
import decimal as _dec
import enum as _enum
import uuid as _uuid

_PLAIN = (bool, int, float, str, bytes, _dt.date, _dt.time, _dt.datetime, _dec.Decimal, _uuid.UUID, _enum.Enum)


def _try(f):
    try:
        return f()
    except (InjectedFault, InjectedError):
        raise
    except Exception as e:  # noqa: BLE001
        return ["EXC", type(e).__name__]


def _panel(L):
    return L.PANEL


def kind_of(L, o) -> str:
    q, t = L.queries, L.terms
    if isinstance(o, q.QueryBuilder):
        return "qb"
    if isinstance(o, q._SetOperation):
        return "setop"
    if isinstance(o, q.CreateQueryBuilder):
        return "create"
    if isinstance(o, q.DropQueryBuilder):
        return "drop"
    if isinstance(o, L.dialects.MySQLLoadQueryBuilder):
        return "load"
    if isinstance(o, q.Table):
        return "table"
    if isinstance(o, q.AliasedQuery):
        return "aliasedq"
    if isinstance(o, q.Schema):
        return "schema"
    if isinstance(o, q.Join):
        return "join"
    if isinstance(o, q.Column):
        return "column"
    if isinstance(o, t.Interval):
        return "interval"
    if isinstance(o, t.Term):
        return "term"
    if isinstance(o, t.EmptyCriterion):
        return "empty"
    return "other"


_ADDR = re.compile(r"0x[0-9a-fA-F]+")


def observe(o, ctx_names=None, inprocess=True, light=False) -> dict:
    """Return {label: value}.  `inprocess` adds hash/eq entries (never compared across processes)."""
    L = lib.get()
    k = kind_of(L, o)
    out = {"kind": k, "class": type(o).__name__}
    names = ctx_names or L.CTX_NAMES
    Param = L.terms.Parameterizer

    if k in ("qb", "setop", "create", "drop", "load", "table", "aliasedq", "schema", "join", "column", "interval",
             "term"):
        for n in names:
            ctx = L.CTX[n]
            out["sql:" + n] = _try(lambda: o.get_sql(ctx))
            if k == "qb":
                def par():
                    sql, vals = o.get_parameterized_sql(ctx)
                    return [sql, _norm_value(L, vals)]
                out["par:" + n] = _try(par)
            elif k in ("setop", "term", "table", "join", "create", "interval", "column"):
                def par2():
                    p = Param()
                    sql = o.get_sql(ctx.copy(parameterizer=p))
                    return [sql, _norm_value(L, p.values)]
                out["par:" + n] = _try(par2)
            if k in ("term", "setop", "qb", "table") and not light:
                ctx2 = ctx.copy(with_alias=True, with_namespace=True, subquery=True)
                out["sqlA:" + n] = _try(lambda: o.get_sql(ctx2))
    if k == "qb" and not light:
        # caller-owned parameterizer with a placeholder factory: values land in the caller's list only
        def own():
            p = Param(placeholder_factory=lambda i: ":p%d" % i)
            ctx = L.CTX["Query"].copy(parameterizer=p)
            sql, vals = o.get_parameterized_sql(ctx)
            return [sql, _norm_value(L, p.values), vals is p.values]
        out["par_own"] = _try(own)

        def par_default():
            sql, vals = o.get_parameterized_sql()  # the builder's own dialect context
            return [sql, _norm_value(L, vals)]
        out["par_default"] = _try(par_default)
        # is_joined() is a read: it answers from the join list and must leave it alone
        out["is_joined"] = _try(lambda: [[n, bool(o.is_joined(p))] for n, p in _panel(L) if n.startswith("T")])

    cls = type(o)
    if cls.__str__ is not object.__str__:
        out["str"] = _try(lambda: str(o))
    if "__repr__" in vars(cls) or any("__repr__" in vars(c) for c in cls.__mro__[1:-1]):
        # Table.__repr__ formats its Schema with the default object repr: mask the address
        out["repr"] = _try(lambda: _ADDR.sub("0x?", repr(o)))
    d = lib.state(o)
    if isinstance(d, dict) and "alias" in d:
        a = d["alias"]
        out["alias"] = a if (a is None or isinstance(a, str)) else ["obj", type(a).__name__]
    if k in ("term", "qb", "setop"):
        out["agg"] = _try(lambda: repr(o.is_aggregate))
    if k == "term":
        nctx = L.context.DEFAULT_SQL_CONTEXT.copy(with_namespace=True, with_alias=True)
        out["tables"] = _try(lambda: sorted(str(t) for t in o.tables_))
        out["fields"] = _try(lambda: sorted(f.get_sql(nctx) for f in o.fields_()))
    if inprocess:
        if cls.__hash__ is not None and cls.__hash__ is not object.__hash__:
            out["hash"] = _try(lambda: hash(o))
        if k in ("table", "schema", "aliasedq", "qb"):
            out["eq"] = _try(lambda: [[n, bool(o == p), bool(o != p)] for n, p in _panel(L)])
    return out


def diff(a: dict, b: dict) -> list[str]:
    """Labels on which two observations differ."""
    ks = sorted(set(a) | set(b))
    return [k for k in ks if a.get(k, "<absent>") != b.get(k, "<absent>")]


def strip_inprocess(o: dict) -> dict:
    return {k: v for k, v in o.items() if k not in ("hash", "eq")}

"""Sensitivity self-test: apply each mutant patch (selftest/mutants/*.patch, seeded/*/patch.diff) to a
scratch copy of the package OUTSIDE /repo and /verif, point the owning check at it with PIKASIM_REPO,
require exit 1 with a VIOLATION line within the quick budget, delete the copy."""
from __future__ import annotations

import glob
import json
import os
import re
import shutil
import subprocess
import sys
import tempfile
import time

from . import lib

VERIF = os.path.dirname(os.path.dirname(os.path.abspath(__file__)))
MUT = os.path.join(VERIF, "selftest", "mutants")
SEEDED = os.path.join(VERIF, "seeded")
REPORT = os.path.join(VERIF, "selftest", "sensitivity_report.json")

REVERT_PROP = {}


def revert_props():
    """revert-<sha>.patch -> property, from the 'fixed:' lines of the known-findings file."""
    out = {}
    for line in open(os.path.join(VERIF, "known_findings.txt"), encoding="utf-8"):
        m = re.match(r"fixed:\s+property=(C\d+)\s+([0-9a-f]{7,})", line)
        if m:
            out[m.group(2)[:7]] = m.group(1)
    return out


def mutants():
    rp = revert_props()
    items = []
    for p in sorted(glob.glob(os.path.join(MUT, "*.patch"))):
        name = os.path.basename(p)[:-6]
        m = re.match(r"m\d+-(C\d+)-", name)
        if m:
            prop = m.group(1)
        elif name.startswith("revert-"):
            prop = rp.get(name[len("revert-"):][:7])
        else:
            prop = None
        if prop:
            items.append({"id": name, "patch": p, "prop": prop, "source": "selftest"})
    for d in sorted(glob.glob(os.path.join(SEEDED, "*"))):
        meta = os.path.join(d, "meta.json")
        patch = os.path.join(d, "patch.diff")
        if os.path.exists(meta) and os.path.exists(patch):
            mj = json.load(open(meta))
            for prop in mj.get("check_with", [mj.get("property")]):
                items.append({"id": "seeded/" + os.path.basename(d), "patch": patch, "prop": prop, "source": "seeded",
                              "breaks": mj.get("property")})
    return items


def run_one(item, tier="quick", runs=None, seed=None):
    tmp = tempfile.mkdtemp(prefix="pikasens_")
    t0 = time.time()
    try:
        shutil.copytree(os.path.join(lib.REPO, "pypika_tortoise"), os.path.join(tmp, "pypika_tortoise"))
        r = subprocess.run(["patch", "-p1", "-s", "-i", item["patch"]], cwd=tmp, capture_output=True, text=True)
        if r.returncode != 0:
            return {"id": item["id"], "prop": item["prop"], "status": "patch does not apply", "detail": (r.stdout + r.stderr)[-300:]}
        env = dict(os.environ)
        env.update({"PIKASIM_REPO": tmp, "PIKASIM_REPLAY_DIR": os.path.join(tmp, "replays"),
                    "PIKASIM_EVIDENCE_DIR": os.path.join(tmp, "evidence")})
        if seed is not None:
            env["VERIF_SEED"] = str(seed)
        cmd = [os.path.join(VERIF, "check"), item["prop"], "--tier", tier]
        if runs:
            cmd += ["--runs", str(runs)]
        p = subprocess.run(cmd, cwd=VERIF, env=env, capture_output=True, text=True, timeout=1800)
        sigs = re.findall(r"signature: (\S+)", p.stdout)
        viol = len(re.findall(r"^VIOLATION property=", p.stdout, flags=re.M))
        # replay the first replay file in a fresh process against the same mutated tree
        replay_ok = None
        m = re.search(r"^VIOLATION property=\S+ replay=(\S+)", p.stdout, flags=re.M)
        if m:
            rp = subprocess.run([os.path.join(VERIF, "check"), "replay", m.group(1)], cwd=VERIF, env=env,
                                capture_output=True, text=True, timeout=600)
            replay_ok = rp.returncode == 1 and "VIOLATION" in rp.stdout
        return {"id": item["id"], "prop": item["prop"], "exit": p.returncode, "violation_lines": viol,
                "signatures": sorted(set(sigs))[:8], "detected": p.returncode == 1 and viol > 0,
                "replay_reproduces": replay_ok, "wall_s": round(time.time() - t0, 1),
                "status": "ok", "tail": p.stdout.strip().splitlines()[-1][:200] if p.stdout.strip() else p.stderr[-300:]}
    finally:
        shutil.rmtree(tmp, ignore_errors=True)


def benign():
    items = []
    for d in sorted(glob.glob(os.path.join(VERIF, "seeded_benign", "*"))):
        if os.path.exists(os.path.join(d, "patch.diff")):
            for prop in ("C01", "C02", "C13", "C15"):
                items.append({"id": "seeded_benign/" + os.path.basename(d), "patch": os.path.join(d, "patch.diff"),
                              "prop": prop, "source": "benign"})
    return items


def main(what="sensitivity", tier="quick", only=None):
    if what == "benign":
        # behaviour-preserving refactors: every check must stay quiet (exit 0)
        res = [run_one(it, tier) for it in benign()]
        loud = [(r["id"], r["prop"]) for r in res if r.get("exit") != 0]
        for r in res:
            print(f"[benign] {r['id']:<50} {r['prop']} exit={r.get('exit')} {r.get('tail', '')[:90]}", flush=True)
        json.dump({"results": res}, open(os.path.join(VERIF, "selftest", "benign_report.json"), "w"), indent=1)
        print(f"[benign] {len(res)} check runs, alarms: {loud}")
        return 2 if loud else 0
    items = mutants()
    if only is None and os.environ.get("SENS_ONLY"):
        only = [x for x in os.environ["SENS_ONLY"].split(",") if x]
    if only:
        items = [i for i in items if any(o in i["id"] for o in only)]
    res = []
    for it in items:
        r = run_one(it, tier)
        res.append(r)
        print(f"[sensitivity] {r['id']:<55} {r['prop']}  "
              f"{'DETECTED' if r.get('detected') else 'MISSED' if r.get('status') == 'ok' else r.get('status')}  "
              f"replay={'ok' if r.get('replay_reproduces') else r.get('replay_reproduces')}  "
              f"{r.get('wall_s', '')}s  {', '.join(r.get('signatures', [])[:3])}", flush=True)
    if not only:
        json.dump({"results": res, "repo_head": subprocess.run(["git", "-C", lib.REPO, "rev-parse", "--short", "HEAD"],
                                                               capture_output=True, text=True).stdout.strip()},
                  open(REPORT, "w"), indent=1)
    missed = [r["id"] for r in res if r.get("status") == "ok" and not r.get("detected")]
    print(f"[sensitivity] {len(res)} mutants, {len(res) - len(missed)} detected, missed: {missed}")
    return 2 if missed else 0

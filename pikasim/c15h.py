"""C15 holder mode — a mutable-mode sub-query embedded in a parent, changed in place after the parent's duplication.

The general C15 heap keeps mutable-mode builders as leaves (its reference model has no notion of an in-place change
of an *argument* reaching its holders).  This mode is a second, small history family that closes that gap for the
deep mechanisms: build `sub` with `immutable=False`, embed it in a parent P at one of the positions below, duplicate P
by copy.deepcopy or a pickle round trip into D, render both, then apply one or two in-place builder calls to the
sub-query of ONE side (the caller's own handle on the original's side; the copy found inside D's graph on the other).
Oracle (no reference model needed, only the history itself): D renders like P right after the duplication, and the
side that was not touched renders exactly what it rendered before the call.  copy.copy is not generated: a shallow
copy shares what its original holds by reference, so there is nothing to decide.
"""
from __future__ import annotations

import copy
import pickle
import random

from . import gen, lib, obs

PROP = "C15"
EMBEDS = ["from", "join", "where_in", "select_scalar", "orderby", "update_set", "insert_value", "union", "with",
          "having", "create_as", "case", "on_conflict", "nested_from", "join_using_and_order", "groupby", "values_rows"]
MUTS = ["select", "where", "orderby", "limit", "distinct", "groupby", "offset", "join", "having"]


def gen_spec(seed, run):
    rng = random.Random(gen.derive_seed(seed, run, 0xC15B))
    L = lib.get()
    how = rng.choice(["deepcopy", "deepcopy", "pickle"])
    return {"qcls": rng.choice(L.CTX_NAMES), "embed": rng.choice(EMBEDS), "parent_mutable": rng.random() < 0.25,
            "how": how, "proto": rng.randint(0, 5) if how == "pickle" else None,
            "muts": [rng.choice(MUTS) for _ in range(rng.randint(1, 2))], "side": rng.choice(["orig", "dup"]),
            "sub_rich": rng.random() < 0.5, "extra": rng.random() < 0.5,
            "ctx_names": sorted(rng.sample(L.CTX_NAMES, 3))}


def _build(L, spec):
    Q = L.QUERY_CLASSES[spec["qcls"]]
    T = L.queries.Table
    t, u, w = T("t"), T("u"), T("w")
    sub = Q.from_(u, immutable=False).select(u.a)
    if spec["sub_rich"]:
        sub.where(u.b > 1)
    sub.as_("s")
    kw = {"immutable": False} if spec["parent_mutable"] else {}
    e = spec["embed"]
    fa = sub.field("a")
    if e == "from":
        p = Q.from_(sub, **kw).select(fa)
    elif e == "join":
        p = Q.from_(t, **kw).join(sub).on(t.id == fa).select(t.x, fa)
    elif e == "where_in":
        p = Q.from_(t, **kw).select(t.x).where(t.id.isin(sub))
    elif e == "select_scalar":
        p = Q.from_(t, **kw).select(t.x, sub)
    elif e == "orderby":
        p = Q.from_(t, **kw).select(t.x).orderby(sub).orderby(t.y)
    elif e == "update_set":
        p = Q.update(t, **kw).set(t.x, sub).set(t.y, 2).where(t.id == 1)
    elif e == "insert_value":
        p = Q.into(t, **kw).columns("a", "b").insert(1, sub)
    elif e == "values_rows":
        p = Q.into(t, **kw).columns("a", "b").insert((1, 2), (3, sub))
    elif e == "union":
        p = Q.from_(t).select(t.x).union(sub)
    elif e == "with":
        p = Q.with_(sub, "cte").from_(L.queries.AliasedQuery("cte")).select("a")
    elif e == "having":
        p = Q.from_(t, **kw).select(t.x).groupby(t.x).having(L.functions.Count(t.y) > sub)
    elif e == "groupby":
        p = Q.from_(t, **kw).select(t.x).groupby(sub)
    elif e == "create_as":
        p = Q.create_table("n").as_select(sub)
    elif e == "case":
        p = L.terms.Case().when(t.x.isin(sub), 1).else_(0)
    elif e == "on_conflict":
        p = Q.into(t, **kw).columns("a", "b").insert(1, 2).on_conflict("a").do_update("b", sub)
    elif e == "nested_from":
        mid = Q.from_(sub).select(fa).as_("m")
        p = Q.from_(mid, **kw).select(mid.field("a"))
    elif e == "join_using_and_order":
        p = Q.from_(t, **kw).join(sub).using("a").select(t.x).orderby(fa)
    else:
        raise ValueError(e)
    if spec["extra"] and isinstance(p, L.queries.QueryBuilder) and e not in ("update_set", "insert_value",
                                                                              "values_rows", "on_conflict"):
        p = p.where(w.k == 5)
    return p, sub, (t, u, w)


def _mutate(L, q, m):
    T = L.queries.Table
    v = T("v")
    if m == "select":
        q.select(v.z)
    elif m == "where":
        q.where(v.k == 7)
    elif m == "orderby":
        q.orderby(v.z)
    elif m == "limit":
        q.limit(3)
    elif m == "distinct":
        q.distinct()
    elif m == "groupby":
        q.groupby(v.g)
    elif m == "offset":
        q.offset(2)
    elif m == "join":
        q.join(v).on(v.id == 1)
    elif m == "having":
        q.having(v.h > 0)


def _find_mutable_sub(L, root):
    """First mutable-mode QueryBuilder reachable from `root` other than root itself (deterministic walk order)."""
    seen = set()
    stack = [root]
    QB = L.queries.QueryBuilder
    while stack:
        o = stack.pop(0)
        if id(o) in seen:
            continue
        seen.add(id(o))
        if isinstance(o, QB) and o is not root and lib.state(o).get("immutable", True) is False \
                and lib.state(o).get("alias") == "s":
            return o
        if isinstance(o, (list, tuple)):
            stack.extend(o)
        elif isinstance(o, (set, frozenset)):
            stack.extend(sorted(o, key=lambda x: type(x).__name__))
        elif isinstance(o, dict):
            stack.extend(o.values())
        elif type(o).__module__.startswith("pypika_tortoise"):
            stack.extend(lib.state(o).values())
    return None


def _obs(o, names):
    d = obs.observe(o, ctx_names=names, light=True)
    return {k: v for k, v in d.items() if k.startswith(("sql", "par"))}


def scenario(spec):
    """-> (status, detail): status in ok | discard | violation."""
    L = lib.get()
    names = spec["ctx_names"]
    try:
        p, sub, _ = _build(L, spec)
    except Exception as e:  # noqa: BLE001 - the embedding is not available for this dialect
        return "discard", "build: " + type(e).__name__
    try:
        if spec["how"] == "deepcopy":
            d = copy.deepcopy(p)
        else:
            d = pickle.loads(pickle.dumps(p, protocol=spec["proto"]))
    except Exception as e:  # noqa: BLE001
        return "violation", {"what": "duplication-failed", "error": repr(e)[:200]}
    p0, d0 = _obs(p, names), _obs(d, names)
    df = obs.diff(p0, d0)
    if df:
        return "violation", {"what": "preserve", "differs_on": df[:6], "original": {k: p0[k] for k in df[:2]},
                             "duplicate": {k: d0[k] for k in df[:2]}}
    if spec["side"] == "orig":
        target, other, before, touched0, holder = sub, d, d0, p0, p
    else:
        target = _find_mutable_sub(L, d)
        if target is None:
            return "violation", {"what": "duplicate-lost-the-mutable-sub-query"}
        if target is sub:
            return "violation", {"what": "shared", "detail": "the duplicate holds the original's sub-query object"}
        other, before, touched0, holder = p, p0, d0, d
    try:
        for m in spec["muts"]:
            _mutate(L, target, m)
    except Exception as e:  # noqa: BLE001 - e.g. a call the dialect rejects: same on every tree, nothing to decide
        return "discard", "mutate: " + type(e).__name__
    after = _obs(other, names)
    df = obs.diff(before, after)
    if df:
        return "violation", {"what": "decouple", "differs_on": df[:6], "before": {k: before[k] for k in df[:2]},
                             "after": {k: after[k] for k in df[:2]}}
    reached = bool(obs.diff(touched0, _obs(holder, names)))
    return "ok", {"reached_holder": reached}


def run_digest(seed, run):
    """Digest of one holder scenario (spec, verdict, detail) for the determinism self-test."""
    from . import runner
    spec = gen_spec(seed, run)
    st, detail = scenario(spec)
    return runner.digest([spec, st, detail])


def signature(spec, detail):
    return f"{PROP}:holder:{detail['what']}:{spec['how']}:{spec['embed']}"


def run_many(seed, lo, hi):
    out = {"n": 0, "discards": 0, "reached": 0, "embeds": {}, "hows": {}, "violations": []}
    seen = set()
    for run in range(lo, hi):
        spec = gen_spec(seed, run)
        st, detail = scenario(spec)
        out["n"] += 1
        if st == "discard":
            out["discards"] += 1
            continue
        out["embeds"][spec["embed"]] = out["embeds"].get(spec["embed"], 0) + 1
        out["hows"][spec["how"]] = out["hows"].get(spec["how"], 0) + 1
        if st == "ok":
            out["reached"] += 1 if detail["reached_holder"] else 0
            continue
        sig = signature(spec, detail)
        if sig in seen:
            continue
        seen.add(sig)
        spec = minimise(spec, detail["what"])
        _, detail = scenario(spec)
        payload = {"property": PROP, "kind": "holder", "seed": seed, "run": run, "signature": sig, "spec": spec}
        payload.update(detail)
        out["violations"].append((sig, payload, run))
    return out


def minimise(spec, what):
    """Greedy simplification of the scenario while the same violation class persists."""
    def bad(s):
        st, d = scenario(s)
        return st == "violation" and d["what"] == what
    cur = dict(spec)
    for k, v in (("extra", False), ("sub_rich", False), ("parent_mutable", False), ("qcls", "Query")):
        if cur[k] != v:
            c = dict(cur, **{k: v})
            if bad(c):
                cur = c
    if len(cur["muts"]) > 1:
        for m in list(cur["muts"]):
            c = dict(cur, muts=[m])
            if bad(c):
                cur = c
                break
    for m in MUTS:
        if cur["muts"] != [m] and len(cur["muts"]) == 1:
            c = dict(cur, muts=[m])
            if bad(c):
                cur = c
            break
    return cur


def replay(payload):
    st, detail = scenario(payload["spec"])
    if st == "violation" and signature(payload["spec"], detail) == payload["signature"]:
        return True, payload["signature"]
    return False, "not reproduced"

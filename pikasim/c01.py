"""C01 — builder calls never alter the receiver or earlier-derived objects.

Workload: build/compose events over a shared heap (plus threads / faults on them) and ONE final
observation pass.  Oracle: every live object's observation equals the observation of its linear
rebuild (R); ablation replay (observe only the offending object, once) separates a C01 breach
from render interference (owned by C02).
"""
from __future__ import annotations

import random
import time

from . import engine, gen, lang, lib, obs, runner, shrink
from .engine import MutableAlias, is_object_slot

PROP = "C01"


def build_program(seed, run, overrides=None):
    """Generate-as-you-go against a live heap; returns (program, knobs, env, gen)."""
    rng = random.Random(gen.derive_seed(seed, run, 0xC01))
    knobs = gen.default_knobs(rng, PROP)
    if overrides:
        knobs.update(overrides)
    env = lang.Env(share_tables=knobs["share_tables"])
    g = gen.Gen(rng, knobs, env)
    discard = None
    for _ in range(knobs["nops"]):
        i = g.next_op()
        op = g.program[i]
        before = alias_snapshot(env, op)
        v = engine.exec_op(env, op)
        env.heap.append(v)
        if not knobs["autoalias"] and alias_changed(env, before):
            discard = "autoalias on a shared object"
            break
    return g.program, knobs, env, g, discard


def alias_snapshot(env, op):
    """Aliases of heap objects passed by reference to this op (to detect the one permitted side effect)."""
    snap = []
    for d in lang.op_deps(op):
        v = env.heap[d]
        if is_object_slot(v):
            dd = getattr(v, "__dict__", None)
            if isinstance(dd, dict) and "alias" in dd:
                snap.append((d, dd["alias"]))
    return snap


def alias_changed(env, snap):
    for d, a in snap:
        if env.heap[d].__dict__.get("alias") is not a and env.heap[d].__dict__.get("alias") != a:
            return True
    return False


def check_slots(program, env, share_tables, light=False):
    """Final observation pass: compare every object slot with its linear rebuild."""
    bad = []
    n_obs = 0
    for i in range(len(program)):
        v = env.heap[i]
        if not is_object_slot(v) and not isinstance(v, lang.Failed):
            continue
        if isinstance(v, lang.Failed) and v.injected:
            continue
        a = engine.slot_obs(env, i, light=light)
        r = engine.reference_obs(program, i, share_tables, light=light)
        n_obs += 1
        d = obs.diff(a, r)
        if d:
            bad.append((i, d, a, r))
    return bad, n_obs


def ablate(program, victim, share_tables, keep=None):
    """Replay `keep` (default: everything) in a fresh heap and observe ONLY the victim, once."""
    only = None if keep is None else set(keep)
    env = engine.execute(program, share_tables=share_tables, only=only)
    a = engine.slot_obs(env, victim)
    r = engine.reference_obs(program, victim, share_tables)
    return obs.diff(a, r), a, r


def owner_of(cls, m):
    """Name of the class in the MRO that defines method m (signatures name the code, not the subclass)."""
    for k in cls.__mro__:
        if m in vars(k):
            return k.__name__
    return cls.__name__


def receiver_label(program, env, j):
    op = program[j]
    if op["op"] in ("call", "join"):
        r = engine._deref(env, op["r"])
        m = op.get("m") if op["op"] == "call" else "join"
        m = {"__add__": "union", "__mul__": "union_all", "__sub__": "minus", "__getitem__": "slice"}.get(m, m)
        return owner_of(type(r), m) + "." + m
    return lang.op_label(op)


def diagnose(program, victim, share_tables):
    """Minimal interfering set and signature for a confirmed violation on `victim`."""
    base = set(lang.cone(program, victim))
    extra = set(range(len(program))) - base

    def fails(keep):
        d, _, _ = ablate(program, victim, share_tables, keep=keep)
        return bool(d)

    if fails(base):
        return None, base, set()  # rebuild differs from the same cone: harness nondeterminism
    m = shrink.minimise_extra(program, base, extra, fails)
    env = engine.execute(program, share_tables=share_tables, only=base | m)
    rts = shrink.roots(program, m)
    labels = sorted({receiver_label(program, env, j) for j in rts})
    sig = f"{PROP}:changed:{'+'.join(labels)}"
    return sig, base, m


def relation(program, victim, m_roots):
    rel = []
    for j in m_roots:
        op = program[j]
        if op.get("r") == victim:
            rel.append("receiver")
        elif victim in lang.op_deps(op):
            rel.append("argument")
        elif victim in lang.cone(program, j):
            rel.append("ancestor")
        else:
            rel.append("relative")
    return rel


def one_run(seed, run, overrides=None):
    program, knobs, env, g, discard = build_program(seed, run, overrides)
    res = {"run": run, "nops": len(program), "discard": discard, "violations": [], "interference": 0,
           "harness": [], "uncovered": sorted(g.uncovered)}
    if discard:
        return res, program
    bad, n_obs = check_slots(program, env, knobs["share_tables"])
    res["n_obs"] = n_obs
    seen_sig = set()
    for victim, d, a, r in bad[:6]:
        d2, a2, r2 = ablate(program, victim, knobs["share_tables"])
        if not d2:
            res["interference"] += 1
            continue
        sig, base, m = diagnose(program, victim, knobs["share_tables"])
        if sig is None:
            res["harness"].append({"victim": victim, "why": "rebuild of the same cone differs", "labels": d2[:5]})
            continue
        if sig in seen_sig:
            continue
        seen_sig.add(sig)
        keep = sorted(base | m)
        prog2, mp = shrink.slice_program(program, keep)
        v2 = mp[victim]
        d3, a3, r3 = ablate(prog2, v2, knobs["share_tables"])
        res["violations"].append({
            "signature": sig,
            "payload": {
                "property": PROP, "config": "seq", "seed": seed, "run": run,
                "share_tables": knobs["share_tables"], "program": prog2, "victim": v2,
                "interfering_ops": [mp[j] for j in sorted(m)],
                "relation": relation(prog2, v2, [mp[j] for j in shrink.roots(program, m)]),
                "signature": sig, "differs_on": d3[:12],
                "observed": {k: a3.get(k) for k in d3[:4]}, "expected": {k: r3.get(k) for k in d3[:4]},
                "original_nops": len(program),
            },
        })
    return res, program


def replay(payload) -> tuple[bool, str]:
    prog = payload["program"]
    v = payload["victim"]
    st = payload.get("share_tables", True)
    d, a, r = ablate(prog, v, st)
    if not d:
        return False, "not reproduced"
    sig, _, _ = diagnose(prog, v, st)
    return True, sig or "harness"

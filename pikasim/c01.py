"""C01 — builder calls never alter the receiver or earlier-derived objects.

Workload: build/compose events over a shared heap (plus threads / faults on them) and ONE final
observation pass.  Oracle: every live object's observation equals the observation of its linear
rebuild (R; applied to results it is K).  Ablation replay (observe only the offending object,
once) separates a C01 breach from render interference (owned by C02).
"""
from __future__ import annotations

import collections
import random

from . import engine, gen, lang, lib, obs, runner, sched, shrink
from .engine import is_object_slot

PROP = "C01"
CONFIGS = [("seq", 0.5), ("seq-fault", 0.2), ("thr", 0.18), ("thr-contend", 0.12)]


# ------------------------------------------------------------------ program construction
def alias_snapshot(env, op):
    """Aliases of heap objects passed by reference to this op (to detect the one permitted side effect)."""
    snap = []
    for d in lang.op_deps(op):
        v = env.heap[d]
        if is_object_slot(v):
            dd = lib.state(v)
            if isinstance(dd, dict) and "alias" in dd:
                snap.append((d, dd["alias"]))
    return snap


def drop_rejected_table_fx(env, snap):
    """The permitted side effect is the alias of a table that IS self-joined (or of a sub-query that is used).  A call
    that the library rejected (an ordinary exception, not an injected one) joined nothing: an alias it left on a Table
    argument is not excused - it is taken out of the snapshot, so the run is neither discarded nor is the effect replayed
    into the reference model, and the final comparison reports whatever now renders differently.  (Sub-queries keep the
    excuse: `join(sub)` tags the sub-query before `.on()` can reject the criterion, on the unchanged tree too.)"""
    res = env.heap[-1]
    if not (isinstance(res, engine.Failed) and not res.injected):
        return snap
    T = lib.get().queries.Table
    return [(d, a) for d, a in snap
            if not (a is None and isinstance(env.heap[d], T) and isinstance(lib.state(env.heap[d]).get("alias"), str))]


def alias_changed(env, snap):
    for d, a in snap:
        cur = lib.state(env.heap[d]).get("alias")
        if cur is not a and not (isinstance(cur, str) and isinstance(a, str) and cur == a):
            return True
    return False


def record_alias_fx(env, op, before, autoalias):
    """After executing `op`: if the alias of a by-reference argument changed, either record the permitted side effect
    on the op (alias_fx, replayed into the reference model) or say why the run is discarded."""
    before = drop_rejected_table_fx(env, before)
    if not alias_changed(env, before):
        return None
    if not autoalias:
        return "autoalias on a shared object"
    fx = []
    discard = None
    for d, a in before:
        cur = lib.state(env.heap[d]).get("alias")
        if a is None and isinstance(cur, str):
            fx.append([d, cur])
        elif cur is not a and cur != a:
            discard = "alias of an already aliased argument changed"  # judged by the final pass
    op["alias_fx"] = fx
    return discard


def build_program(seed, run, tag=0xC01, overrides=None, prop=PROP):
    """Generate-as-you-go against a live heap (this is also the fault-free sequential dry run)."""
    rng = random.Random(gen.derive_seed(seed, run, tag))
    knobs = gen.default_knobs(rng, prop)
    if prop == PROP:
        # `autoalias` configuration: shared (heap) objects may sit in aliasing positions; the permitted side
        # effect is recorded on the op (alias_fx) and replayed into the reference model
        knobs["autoalias"] = rng.random() < 0.18
        # complete statements as roots: receivers whose clauses are ALREADY non-empty (the state the property stresses)
        knobs["p_stmt"] = rng.choice([0.0, 0.3, 0.6])
    if overrides:
        knobs.update(overrides)
    env = lang.Env(share_tables=knobs["share_tables"])
    g = gen.Gen(rng, knobs, env)
    discard = None
    # scripted opening of 30 % of the autoalias runs: an un-aliased heap Table, a statement that takes that very object
    # as its FROM source, one continuation, then join() calls on the statement - with r_join's by-reference self-join
    # this is the history in which the library writes an alias into a table (and a rejected join must not)
    script = ["tbl", "from", "select", "join", "join"] if (prop == PROP and knobs["autoalias"] and rng.random() < 0.3) else []
    s_tbl = s_q = None
    for _ in range(knobs["nops"]):
        i = None
        if script:
            step = script.pop(0)
            if step == "tbl":
                i = s_tbl = g.emit({"op": "new", "x": {"t": "table", "name": rng.choice(["a", "b", "c"]), "fresh": True}})
            elif step == "from" and s_tbl is not None:
                tv = {"t": "var", "i": s_tbl}
                i = s_q = g.emit({"op": "new", "x": {"t": "meth", "x": {"t": "cls", "name": rng.choice(knobs["qcls"])},
                                                     "m": "from_", "a": [tv]}}, scope=[tv])
            elif step == "select" and s_q is not None and is_object_slot(env.heap[s_q]):
                i = g.g_call(s_q, "select")
                if i is not None:
                    s_q = i
            elif step == "join" and s_q is not None and is_object_slot(env.heap[s_q]):
                i = g.g_call(s_q, "join")
        if i is None:
            i = g.next_op()
        op = g.program[i]
        before = alias_snapshot(env, op)
        v = engine.exec_op(env, op)
        env.heap.append(v)
        before = drop_rejected_table_fx(env, before)
        if alias_changed(env, before):
            if not knobs["autoalias"]:
                discard = "autoalias on a shared object"
                break
            fx = []
            for d, a in before:
                cur = lib.state(env.heap[d]).get("alias")
                if a is None and isinstance(cur, str):
                    fx.append([d, cur])
                elif cur is not a and cur != a:
                    discard = "alias of an already aliased argument changed"  # judged by the final pass
            op["alias_fx"] = fx
    if prop == PROP and discard is None and rng.random() < 0.35:
        # probe tail (oracle K on ANCESTORS): late continuations of the oldest objects, after everything else has
        # happened around them - what exposes hidden receiver state that no render of the receiver itself shows
        olds = [i for i, v in enumerate(env.heap) if is_object_slot(v) and g.kind(v) in ("qb", "setop", "term", "table", "create")]
        olds = olds[: max(1, len(olds) // 3)]
        for _ in range(rng.randint(2, 4)):
            if not olds:
                break
            ri = olds[rng.randrange(len(olds))]
            v = g.deref(ri)
            ms = g.methods_of(v)
            if not ms or g.is_mutable(v):
                continue
            i = g.g_call(ri, g.pick_method(v, ms))
            if i is None:
                continue
            op = g.program[i]
            before = alias_snapshot(env, op)
            env.heap.append(engine.exec_op(env, op))
            before = drop_rejected_table_fx(env, before)
            if alias_changed(env, before):
                if not knobs["autoalias"]:
                    discard = "autoalias on a shared object"
                    break
                op["alias_fx"] = [[d, lib.state(env.heap[d]).get("alias")] for d, a in before
                                  if a is None and isinstance(lib.state(env.heap[d]).get("alias"), str)]
    return g.program, knobs, env, g, discard, rng


def owner_of(cls, m):
    """Name of the class in the MRO that defines method m (signatures name the code, not the subclass)."""
    for k in cls.__mro__:
        if m in vars(k):
            return k.__name__
    return cls.__name__


def receiver_label(program, env, j):
    op = program[j]
    if op["op"] in ("call", "join"):
        r = engine._deref(env, op["r"])
        if not is_object_slot(r):
            return lang.op_label(op)
        m = op.get("m") if op["op"] == "call" else "join"
        m = {"__add__": "union", "__mul__": "union_all", "__sub__": "minus", "__getitem__": "slice"}.get(m, m)
        return owner_of(type(r), m) + "." + m
    return lang.op_label(op)


def is_branching(program) -> bool:
    use = collections.Counter()
    for op in program:
        for d in lang.op_deps(op):
            use[d] += 1
    return any(c >= 2 for c in use.values())


# ------------------------------------------------------------------ oracle
def check_slots(program, env, share_tables, okw):
    """Final observation pass: compare every object slot with its linear rebuild."""
    bad = []
    n_obs = 0
    trail = []
    for i in range(len(program)):
        v = env.heap[i]
        if isinstance(v, (lang.Skipped, lang.Value, engine.MutableAlias)):
            trail.append(type(v).__name__)
            continue
        if isinstance(v, lang.Failed) and v.injected:
            trail.append("injected")
            continue
        a = engine.slot_obs(env, i, **okw)
        r = engine.reference_obs(program, i, share_tables, **okw)
        n_obs += 1
        trail.append(obs.strip_inprocess(a))
        d = obs.diff(a, r)
        if d:
            bad.append((i, d))
    return bad, n_obs, runner.digest(trail)


def ablate(program, victim, share_tables, keep=None, okw=None):
    """Replay `keep` (default: everything) sequentially in a fresh heap, observe ONLY the victim, once."""
    okw = okw or {}
    only = None if keep is None else set(keep)
    env = engine.execute(program, share_tables=share_tables, only=only)
    a = engine.slot_obs(env, victim, **okw)
    r = engine.reference_obs(program, victim, share_tables, **okw)
    return obs.diff(a, r), a, r


def diagnose(program, victim, share_tables, okw=None):
    """Minimal interfering set and signature for a violation that reproduces sequentially."""
    base = set(lang.cone(program, victim))
    extra = set(range(len(program))) - base
    # reduce with a narrow observation (one context in which the difference shows) when that is enough
    d0, _, _ = ablate(program, victim, share_tables, okw=okw)
    ctxs = [x.split(":", 1)[1] for x in d0 if ":" in x]
    if ctxs:
        narrow = dict(okw or {}, ctx_names=[ctxs[0]], light=True)
        dn, _, _ = ablate(program, victim, share_tables, okw=narrow)
        if dn:
            okw = narrow

    def fails(keep):
        d, _, _ = ablate(program, victim, share_tables, keep=keep, okw=okw)
        return bool(d)

    if fails(base):
        return None, base, set()  # rebuild differs from the same cone: harness nondeterminism
    m = shrink.minimise_extra(program, base, extra, fails)
    env = engine.execute(program, share_tables=share_tables, only=base | m)
    rts = shrink.roots(program, m)
    labels = sorted({receiver_label(program, env, j) for j in rts})
    sig = f"{PROP}:changed:{'+'.join(labels)}"
    return sig, base, m


def relation(program, victim, m_roots):
    rel = []
    for j in m_roots:
        op = program[j]
        if op.get("r") == victim:
            rel.append("receiver")
        elif victim in lang.op_deps(op):
            rel.append("argument")
        elif victim in lang.cone(program, j):
            rel.append("ancestor")
        else:
            rel.append("relative")
    return rel


# ------------------------------------------------------------------ simulated (threads / faults)
SIM_OPS = ("call", "join", "render", "dup")


def plan_sim(program, knobs, rng, config, op_len):
    """Draw the schedule/fault plan of one simulated execution (all from the run's PRNG)."""
    n = len(program)
    plan = {"gran": "LINE" if rng.random() < 0.8 else "INSTRUCTION", "faults": [], "stall": None}
    if config == "thr":
        nact = rng.randint(2, 4)
        plan["assign"] = {i: rng.randrange(nact) for i in range(n)}
        plan["mean_q"] = int(round(2 ** rng.uniform(0, 6)))
        if rng.random() < 0.3:
            # PCT-style: priorities + d change points instead of the uniform random walk
            plan["pct"] = {"d": rng.randint(1, 3), "est": 120 * max(1, n), "nact": nact}  # not the measured length: that depends on the hash seed
        if rng.random() < 0.25:
            cands = [i for i in range(n) if op_len.get(i, 0) > 4 and program[i]["op"] in SIM_OPS]
            if cands:
                i = cands[rng.randrange(len(cands))]
                plan["stall"] = {"actor": plan["assign"][i], "op": i, "step": rng.randint(1, op_len[i] - 1)}
    else:
        plan["assign"] = {i: 0 for i in range(n)}
        plan["mean_q"] = 1 << 20
        plan["gran"] = "LINE"
        cands = [i for i in range(n) if op_len.get(i, 0) > 2 and program[i]["op"] in SIM_OPS]
        if not cands:
            cands = [i for i in range(n) if op_len.get(i, 0) > 2]
        rng.shuffle(cands)
        for i in cands[: rng.randint(1, 3)]:
            # async_exc: a BaseException (KeyboardInterrupt-like); async_err: an ordinary Exception (a timeout handler
            # that raises), which `except Exception` blocks in the library do see
            plan["faults"].append({"op": i, "step": rng.randint(1, op_len[i]),
                                   "kind": "async_exc" if rng.random() < 0.65 else "async_err"})
    return plan


def run_sim(program, share_tables, plan, trace=None, rng=None):
    if trace is not None:
        dec = sched.ReplayDecider(trace)
    elif plan.get("pct"):
        dec = sched.PCTDecider(rng, plan["pct"]["nact"], plan["pct"]["d"], plan["pct"]["est"])
    else:
        dec = sched.RandomDecider(rng, plan["mean_q"])
    assign = {int(k): v for k, v in plan["assign"].items()}
    env0 = None
    if plan.get("start"):
        # everything before `start` is executed sequentially; only the tail is simulated (contention phase)
        env0 = engine.execute(program[: plan["start"]], share_tables=share_tables)
    sim = sched.Sim(program, assign, dec, share_tables=share_tables, gran=plan["gran"],
                    faults=[dict(f) for f in plan["faults"]], stall=dict(plan["stall"]) if plan["stall"] else None,
                    env=env0)
    env = sim.run()
    return env, sim, dec.trace


def plan_shape(plan):
    """The part of a plan that does not depend on measured step counts (which vary with PYTHONHASHSEED)."""
    if plan is None:
        return None
    return {"gran": plan.get("gran"), "assign": sorted((int(k), v) for k, v in plan.get("assign", {}).items()),
            "faults": sorted((f["op"], f.get("kind")) for f in plan.get("faults", [])),
            "op_faults": sorted((f["op"], f.get("kind")) for f in plan.get("op_faults", []) or []),
            "stall": (plan["stall"]["actor"], plan["stall"]["op"]) if plan.get("stall") else None,
            "pct": plan.get("pct"), "start": plan.get("start")}


# ------------------------------------------------------------------ one run
def pick_config(rng, force=None, configs=CONFIGS):
    if force:
        return force
    r = rng.random()
    acc = 0.0
    for name, w in configs:
        acc += w
        if r < acc:
            return name
    return configs[0][0]


def one_run(seed, run, force_config=None, overrides=None, max_diag=3):
    L = lib.get()
    program, knobs, env, g, discard, rng = build_program(seed, run, overrides=overrides)
    config = pick_config(rng, force_config)
    if knobs["autoalias"]:
        config = "seq"
    if discard == "alias of an already aliased argument changed":
        discard = None
    okw = {"ctx_names": sorted(rng.sample(L.CTX_NAMES, 3))}
    st = knobs["share_tables"]
    res = {"run": run, "config": config + ("+autoalias" if knobs["autoalias"] else ""), "nops": len(program),
           "discard": discard, "violations": [], "alias_fx": sum(len(op.get("alias_fx", ())) for op in program),
           "interference": 0, "harness": [], "uncovered": sorted(g.uncovered), "steps": 0, "switches": 0,
           "fired": {}, "overlap": 0, "n_obs": 0, "shape": None, "branching": False, "methods": {},
           "skipped_after_fault": 0, "schedule_hash": None}
    if discard:
        return res, program
    res["shape"] = runner.shape_of(program)
    res["branching"] = is_branching(program)
    meth = collections.Counter()
    for j, op in enumerate(program):
        if op["op"] in ("call", "join"):
            meth[receiver_label(program, env, j)] += 1
    res["methods"] = dict(meth)

    plan = trace = None
    n0 = None
    if config == "thr-contend":
        # contention phase: 2-4 sibling builder calls on ONE shared receiver, one actor each, all enabled at the
        # same instant, tiny quanta - the history in which a check-then-act window inside a builder is hit
        n0 = len(program)
        # receiver: first a KIND (uniformly among the kinds present, so that rarer builders - set operations, DDL
        # builders, function terms - get their share of contention runs), then an object of that kind
        by_kind = {}
        for i, v in enumerate(env.heap):
            if is_object_slot(v) and not g.is_mutable(v) and g.methods_of(v):
                kd = g.kind(v) if g.kind(v) != "term" else "term:" + type(v).__mro__[-4 if len(type(v).__mro__) > 4 else 0].__name__
                by_kind.setdefault(kd, []).append(i)
        ri = None
        if by_kind:
            kinds = sorted(by_kind)
            pool = by_kind[kinds[rng.randrange(len(kinds))]]
            ri = pool[rng.randrange(len(pool))]
        k = 0
        if ri is not None:
            v = g.deref(ri)
            ms = g.methods_of(v)
            if ms and not g.is_mutable(v):
                m0 = g.pick_method(v, ms)
                for _ in range(rng.randint(2, 4)):
                    m = m0 if rng.random() < 0.7 else g.pick_method(v, ms)
                    i = g.g_call(ri, m)
                    if i is None:
                        continue
                    before = alias_snapshot(env, program[i])
                    env.heap.append(engine.exec_op(env, program[i]))
                    before = drop_rejected_table_fx(env, before)
                    if alias_changed(env, before):
                        res["discard"] = "autoalias on a shared object"
                        return res, program
                    k += 1
        if k < 2:
            config = res["config"] = "thr"
            n0 = None
        else:
            res["nops"] = len(program)
            nact = k
            plan = {"gran": "LINE" if rng.random() < 0.7 else "INSTRUCTION", "faults": [], "stall": None,
                    "assign": {i: (i - n0 if i >= n0 else 0) for i in range(len(program))},
                    "mean_q": rng.choice([1, 1, 2, 3, 5]), "start": n0}
            env, sim, trace = run_sim(program, st, plan, rng=rng)
    if config in ("thr", "seq-fault"):
        op_len, msim = sched.measure(program, st)
        plan = plan_sim(program, knobs, rng, config, op_len)
        env, sim, trace = run_sim(program, st, plan, rng=rng)
    if plan is not None:
        res["steps"] = sim.clock
        res["switches"] = sim.switches
        res["fired"] = dict(sim.fired)
        res["overlap"] = sim.overlap
        res["schedule_hash"] = "%016x" % sim.hash
        res["preempt_in_lib"] = getattr(sim, "preempt_in_lib", 0)
        res["skipped_after_fault"] = sum(1 for v in env.heap if isinstance(v, lang.Skipped))
        res["shape"] = runner.shape_of(program)

    bad, n_obs, trail = check_slots(program, env, st, okw)
    res["n_obs"] = n_obs
    # full digest: exact repeat under the same PYTHONHASHSEED; xdigest: what must also agree under another
    # hash seed (the library's own set iteration makes step counts, hence schedules, hash-seed dependent)
    res["xdigest"] = runner.digest([program, config, plan_shape(plan), trail, sorted(res["fired"])])
    res["digest"] = runner.digest([res["xdigest"], trace, res["steps"], res["schedule_hash"]])
    seen_sig = set()
    for victim, d in bad[:max_diag]:
        # 1. ablation: same history, observe only the victim, once
        if config == "seq":
            d2, a2, r2 = ablate(program, victim, st, okw=okw)
        else:
            env2, _, _ = run_sim(program, st, plan, trace=trace)
            a2 = engine.slot_obs(env2, victim, **okw)
            r2 = engine.reference_obs(program, victim, st, **okw)
            d2 = obs.diff(a2, r2)
        if not d2:
            res["interference"] += 1
            continue
        # 2. does it already fail without threads/faults?  then it is a plain history violation
        dseq, aseq, rseq = ablate(program, victim, st, okw=okw)
        if dseq:
            sig, base, m = diagnose(program, victim, st, okw=okw)
            if sig is None:
                res["harness"].append({"victim": victim, "why": "rebuild of the same cone differs", "labels": dseq[:5]})
                continue
            if sig in seen_sig:
                continue
            seen_sig.add(sig)
            keep = sorted(base | m)
            prog2, mp = shrink.slice_program(program, keep)
            v2 = mp[victim]
            d3, a3, r3 = ablate(prog2, v2, st, okw=okw)
            payload = {
                "property": PROP, "config": "seq", "found_in": config, "seed": seed, "run": run, "share_tables": st,
                "program": prog2, "victim": v2, "okw": okw, "interfering_ops": [mp[j] for j in sorted(m)],
                "relation": relation(prog2, v2, [mp[j] for j in shrink.roots(program, m)]),
                "signature": sig, "differs_on": d3[:12],
                "observed": {k: a3.get(k) for k in d3[:3]}, "expected": {k: r3.get(k) for k in d3[:3]},
                "original_nops": len(program),
            }
        else:
            vlabel = receiver_label(program, env, victim)
            kind = "thread" if config.startswith("thr") else "fault"
            culprit = ""
            if config == "seq-fault":
                culprit = "+".join(sorted({receiver_label(program, env, f["op"]) for f in plan["faults"]}))
            sig = f"{PROP}:{kind}:{culprit or vlabel}"
            if sig in seen_sig:
                continue
            seen_sig.add(sig)
            if kind == "thread":
                def _fails(tr):
                    e3, _, _ = run_sim(program, st, plan, trace=tr)
                    return bool(obs.diff(engine.slot_obs(e3, victim, **okw), r2))
                raw = len(sched.coalesce(trace))
                trace, ok = sched.minimise_trace(_fails, trace)
                res["trace_minimised"] = [raw, len(trace), sched.preemptions(trace)]
            payload = {
                "property": PROP, "config": config, "seed": seed, "run": run, "share_tables": st,
                "program": program, "victim": victim, "okw": okw, "plan": plan, "trace": trace, "schedule_minimised": res.get("trace_minimised"),
                "signature": sig, "differs_on": d2[:12],
                "observed": {k: a2.get(k) for k in d2[:3]}, "expected": {k: r2.get(k) for k in d2[:3]},
            }
        res["violations"].append({"signature": sig, "payload": payload})
    return res, program


def replay(payload):
    """Re-execute a replay file (no PRNG draw). Returns (reproduced, signature)."""
    prog = payload["program"]
    v = payload["victim"]
    st = payload.get("share_tables", True)
    okw = payload.get("okw") or {}
    if payload.get("config", "seq") == "seq":
        d, a, r = ablate(prog, v, st, okw=okw)
        if not d:
            return False, "not reproduced"
        sig, _, _ = diagnose(prog, v, st, okw=okw)
        return True, sig or "harness"
    env2, _, _ = run_sim(prog, st, payload["plan"], trace=payload["trace"])
    a2 = engine.slot_obs(env2, v, **okw)
    r2 = engine.reference_obs(prog, v, st, **okw)
    if not obs.diff(a2, r2):
        return False, "not reproduced"
    return True, payload["signature"]


# ------------------------------------------------------------------ crash-point enumeration of one builder call
def crashpoint_sweep(seed, run, max_steps=400):
    """COMPLETE enumeration, for one builder call of one run, of every LINE step of that call as the point where an
    asynchronous exception is injected: the failed call may return nothing, but the receiver, its by-reference
    arguments and every other live object must equal their linear rebuild afterwards."""
    L = lib.get()
    program, knobs, env, g, discard, rng = build_program(seed, run, overrides={"autoalias": False})
    if discard:
        return None
    st = knobs["share_tables"]
    rr = random.Random(gen.derive_seed(seed, run, 0x5EE9))
    cands = [j for j, op in enumerate(program) if op["op"] in ("call", "join") and j <= 14
             and not isinstance(env.heap[j], lang.Skipped)]
    if not cands:
        return None
    byref = [j for j in cands if len(lang.op_deps(program[j])) >= 2]
    pool = byref if (byref and rr.random() < 0.7) else cands
    j = pool[rr.randrange(len(pool))]
    sub = program[: j + 1]
    op_len, _ = sched.measure(sub, st)
    steps = op_len.get(j, 0)
    if steps < 2 or steps > max_steps:
        return None
    okw = {"ctx_names": sorted(rr.sample(L.CTX_NAMES, 2)), "light": True}
    refs = {i: engine.reference_obs(sub, i, st, **okw) for i in range(j)}
    viol = []
    fired = 0
    for sstep in range(1, steps + 1):
        plan = {"gran": "LINE", "assign": {str(i): 0 for i in range(len(sub))}, "mean_q": 1 << 20, "stall": None,
                "faults": [{"op": j, "step": sstep, "kind": "async_exc" if (sstep + run) % 3 else "async_err"}], "start": j}
        env2, sim, _ = run_sim(sub, st, plan, trace=[])
        fired += sim.fired.get("async_exc", 0) + sim.fired.get("async_err", 0)
        for i in range(j):
            v = env2.heap[i]
            if isinstance(v, (lang.Skipped, lang.Value, engine.MutableAlias)):
                continue
            a = engine.slot_obs(env2, i, **okw)
            d = obs.diff(a, refs[i])
            if d:
                sig = f"{PROP}:fault:{receiver_label(sub, env2, j)}"
                viol.append((sig, {"property": PROP, "config": "seq-fault", "seed": seed, "run": run, "share_tables": st,
                                   "program": sub, "victim": i, "okw": okw, "plan": plan, "trace": [],
                                   "signature": sig, "differs_on": d[:8], "found_by": "crash-point sweep",
                                   "observed": {k: a.get(k) for k in d[:2]}, "expected": {k: refs[i].get(k) for k in d[:2]}},
                             run))
                break
        if viol:
            break
    return {"steps": steps, "fired": fired, "violations": viol}


# ------------------------------------------------------------------ batch (one worker task)
def batch(task):
    lib.get()
    seed, lo, hi = task["seed"], task["lo"], task["hi"]
    agg = new_agg()
    if runner.past_deadline():
        return agg  # the tier's soft time budget is used up: no further runs are started
    nsweep = 4 if task.get("tier") == "thorough" else 1
    done = 0
    for run in range(lo, hi):
        if done >= nsweep:
            break
        try:
            sw = runner.guarded(crashpoint_sweep, 120, seed, run)
        except (runner.RunTimeout, lang.HarnessError) as e:
            agg["harness"].append({"run": run, "why": "sweep: " + repr(e)[:200]})
            break
        if sw is not None:
            done += 1
            agg["sweeps"] += 1
            agg["crashpoints"] += sw["steps"]
            agg["fired"]["async_exc_crashpoint_sweep"] += sw["fired"]
            agg["violations"].extend(sw["violations"])
    for run in range(lo, hi):
        try:
            res, program = runner.guarded(one_run, 120, seed, run, force_config=task.get("config"), overrides=task.get("overrides"))
        except (runner.RunTimeout, lang.HarnessError) as e:
            agg["harness"].append({"run": run, "why": repr(e)[:200]})
            continue
        fold(agg, res, program)
        runner.note_violations(len(res["violations"]))
        if len(agg["violations"]) >= task.get("max_viol", 12) or runner.stop_requested():
            break
    return agg


def new_agg():
    return {"runs": 0, "discards": 0, "ops": 0, "n_obs": 0, "interference": 0, "harness": [], "violations": [],
            "uncovered": set(), "steps": 0, "switches": 0, "fired": collections.Counter(), "overlap": 0,
            "shapes": set(), "branching_shapes": set(), "methods": collections.Counter(),
            "configs": collections.Counter(), "samples": [], "schedules": set(), "preempt_in_lib": 0,
            "skipped_after_fault": 0, "fault_runs": 0, "sweeps": 0, "crashpoints": 0}


def fold(agg, res, program):
    agg["runs"] += 1
    agg["configs"][res["config"]] += 1
    if res["discard"]:
        agg["discards"] += 1
        return
    agg["ops"] += res["nops"]
    agg["n_obs"] += res["n_obs"]
    agg["interference"] += res["interference"]
    agg["harness"].extend(res["harness"][:2])
    agg["uncovered"].update(res["uncovered"])
    agg["steps"] += res["steps"]
    agg["switches"] += res["switches"]
    agg["fired"].update(res["fired"])
    if res["fired"]:
        agg["fault_runs"] += 1
    agg["overlap"] += res["overlap"]
    agg["preempt_in_lib"] += res.get("preempt_in_lib", 0)
    agg["skipped_after_fault"] += res["skipped_after_fault"]
    agg["shapes"].add(res["shape"])
    if res["branching"]:
        agg["branching_shapes"].add(res["shape"])
    agg["methods"].update(res["methods"])
    if res["schedule_hash"]:
        agg["schedules"].add(res["schedule_hash"])
    if len(agg["samples"]) < 2 and res["branching"] and res["nops"] <= 8:
        agg["samples"].append({"run": res["run"], "config": res["config"], "program": program})
    for v in res["violations"]:
        agg["violations"].append((v["signature"], v["payload"], res["run"]))


def merge(aggs):
    out = new_agg()
    for a in aggs:
        for k, v in a.items():
            if isinstance(v, set):
                out[k] |= v
            elif isinstance(v, collections.Counter):
                out[k].update(v)
            elif isinstance(v, list):
                out[k].extend(v)
            else:
                out[k] += v
    return out


# ------------------------------------------------------------------ tiers / evidence
TIERS = {
    "quick": {"runs": 15000, "chunk": 50, "wall_cap": 900},
    "thorough": {"runs": 200000, "chunk": 200, "wall_cap": 5400},
}

ASSUMPTIONS = [
    "reference = linear rebuild of the object's own construction cone with the same library code "
    "(a builder broken identically on every path is a change of meaning, not of immutability)",
    "pre-emption/injection at LINE or INSTRUCTION boundaries of library frames; C-level calls are atomic (GIL)",
    "un-aliased subqueries/self-joined tables in aliasing positions are private inline objects "
    "(the one permitted side effect is not exercised on shared objects in this check)",
    "seeded sampling, not exhaustive",
]


def evidence(agg, tier, seed, wall):
    L = lib.get()
    census = L.census()
    all_methods = sorted({c.rsplit(".", 1)[-1] + "." + m for src in (census, L.pinned_census())
                          for c, ms in src.items() for m in ms})
    covered = sorted(m for m in all_methods if agg["methods"].get(m, 0) > 0)
    missing = sorted(set(all_methods) - set(covered))
    rate = agg["runs"] / wall * 3600 if wall > 0 else 0
    cov = {
        "evaluations": agg["runs"],
        "distinct_nontrivial": len(agg["branching_shapes"]),
        "rule": "one evaluation = one simulated run (seeded program of 3-24 build/compose ops over a shared heap, "
                "executed sequentially, with injected asynchronous exceptions, or by 2-4 scheduled actor threads; "
                "then every live object is compared with its linear rebuild). distinct = distinct op-log shapes "
                "(literals abstracted); non-trivial = the shape contains a branching (some object is receiver or "
                "by-reference argument of >= 2 later ops)",
        "samples": agg["samples"][:3] or [{"note": "no short branching sample in this batch"}],
        "distinct_shapes": len(agg["shapes"]),
        "configs": dict(agg["configs"]),
        "ops_executed": agg["ops"],
        "objects_compared_with_rebuild": agg["n_obs"],
        "runs_per_hour": int(rate),
        "simulated_time_logical_steps": agg["steps"],
        "context_switches": agg["switches"],
        "preemptions_inside_library_frames": agg["preempt_in_lib"],
        "ops_begun_while_another_actor_mid_op": agg["overlap"],
        "distinct_interleavings_by_schedule_hash": len(agg["schedules"]),
        "faults_fired": dict(agg["fired"]),
        "runs_with_a_fired_fault": agg["fault_runs"],
        "complete_crashpoint_sweeps_of_one_builder_call": agg["sweeps"],
        "crash_points_enumerated_in_those_sweeps": agg["crashpoints"],
        "ops_skipped_after_a_fault": agg["skipped_after_fault"],
        "discarded_runs_autoalias_on_shared_object": agg["discards"],
        "render_interference_not_C01": agg["interference"],
        "builder_methods_in_census": len(all_methods),
        "builder_methods_exercised": len(covered),
        "builder_methods_not_exercised": missing,
        "methods_without_recipe": sorted(agg["uncovered"]),
        "pinned_builder_methods_that_lost_their_decorator": L.lost_decorators(),
        "per_method_calls": dict(sorted(agg["methods"].items())),
        "components": {"real": ["pypika_tortoise (whole package, imported from the repo working tree)"],
                       "stubbed": [], "harness_doubles": ["actor threads", "FaultyLeaf(Term)"]},
        "fault_kinds_not_applicable": ["message loss/dup/reorder", "partition", "disk error/torn write",
                                       "clock skew (the library has no transport, storage or clock)"],
    }
    return cov, ASSUMPTIONS, None

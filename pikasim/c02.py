"""C02 — rendering is a pure, repeatable, process-independent function.

Phase 1 builds a population (no renders).  Phase 2 is a history of read events (get_sql in six
contexts, parameterised with a fresh or a caller-owned parameterizer, str, repr, hash, ==,
metadata) issued by 1-4 scheduled actors over the same objects, with injected asynchronous
exceptions, faulty leaves, lowered recursion limits and stalls.  Phase 3 applies further builder
calls to rendered objects.  Oracles: every completed read returns the linear-rebuild value (R);
reads leave no trace on any live object (S via R in the final pass); phase-3 results equal their
rebuild, in which no render ever happened (K); the same run under another PYTHONHASHSEED in a
fresh interpreter gives identical values.
"""
from __future__ import annotations

import collections
import glob
import json
import os
import random
import subprocess
import sys

from . import c01, engine, gen, lang, lib, obs, runner, sched, shrink
from .engine import is_object_slot
from .obs import kind_of

PROP = "C02"
CONFIGS = [("seq", 0.4), ("seq-fault", 0.2), ("thr", 0.4)]
HERE = os.path.dirname(os.path.dirname(os.path.abspath(__file__)))

MODES = {
    "qb": [("sql", 6), ("par", 4), ("par_own", 2), ("str", 1.5), ("repr", 0.5), ("hash", 1), ("eq", 0.5),
           ("sql_flags", 1), ("sql_default", 1), ("agg", 0.3)],
    "setop": [("sql", 6), ("par", 3), ("par_own", 1), ("str", 1.5), ("hash", 0.5), ("sql_flags", 1)],
    "create": [("sql", 4), ("str", 1), ("repr", 0.5), ("par", 1)],
    "drop": [("sql", 3), ("str", 1), ("sql_default", 1)],
    "load": [("sql", 3), ("str", 1), ("sql_default", 1)],
    "table": [("sql", 3), ("str", 1), ("hash", 1), ("eq", 1), ("par", 0.5)],
    "term": [("sql", 5), ("sql_flags", 2), ("par", 3), ("par_own", 1), ("str", 1), ("hash", 1.5), ("agg", 0.7),
             ("tables", 0.7), ("fields", 0.7)],
    "join": [("sql", 3), ("par", 1)],
    "schema": [("sql", 2), ("eq", 1)],
    "aliasedq": [("sql", 1), ("hash", 1), ("eq", 1)],
}


def gen_reads(rng, env, L, n1, k):
    """k read events over the renderable slots of the population (biased to repeat objects)."""
    targets = [i for i in range(n1) if is_object_slot(env.heap[i]) and kind_of(L, env.heap[i]) in MODES]
    if not targets:
        return []
    hot = [targets[rng.randrange(len(targets))] for _ in range(min(3, len(targets)))]
    ops = []
    for _ in range(k):
        o = hot[rng.randrange(len(hot))] if rng.random() < 0.6 else targets[rng.randrange(len(targets))]
        kd = kind_of(L, env.heap[o])
        modes = MODES[kd]
        tot = sum(w for _, w in modes)
        r = rng.random() * tot
        mode = modes[-1][0]
        for m, w in modes:
            r -= w
            if r < 0:
                mode = m
                break
        op = {"op": "render", "o": o, "mode": mode, "ctx": L.CTX_NAMES[rng.randrange(6)]}
        if mode == "par_own":
            op["pre"] = rng.randrange(3)
            if rng.random() < 0.15:
                op["fail_at"] = rng.randint(1, 3)
        ops.append(op)
    return ops


def build(seed, run, overrides=None):
    """Generate the three phases against a live heap (sequential dry run). Returns dict."""
    L = lib.get()
    rng = random.Random(gen.derive_seed(seed, run, 0xC02))
    knobs = gen.default_knobs(rng, PROP)
    knobs["nops"] = rng.randint(3, 10)
    knobs["p_new"] = rng.choice([0.2, 0.3])
    # renderable statements need a few clauses: bias to query builders
    knobs["focus"] = rng.choice(["qb", "qb", "qb", "any", "term", "setop", "ddl"])
    knobs["p_leaf"] = rng.choice([0.0, 0.1, 0.3])
    knobs["p_stmt"] = rng.choice([0.3, 0.6, 0.9])
    if overrides:
        knobs.update(overrides)
    env = lang.Env(share_tables=knobs["share_tables"])
    g = gen.Gen(rng, knobs, env)
    discard = None
    for _ in range(knobs["nops"]):
        i = g.next_op()
        op = g.program[i]
        before = c01.alias_snapshot(env, op)
        env.heap.append(engine.exec_op(env, op))
        if c01.alias_changed(env, before):
            discard = "autoalias on a shared object"
            break
    n1 = len(g.program)
    reads = [] if discard else gen_reads(rng, env, L, n1, rng.randint(4, 40))
    for op in reads:
        g.program.append(op)
        g.meta[len(g.program) - 1] = {}
        env.heap.append(engine.exec_op(env, op))
    n2 = len(g.program)
    if not discard:
        # phase 3: further builder calls, preferably on objects that have been rendered
        rendered = sorted({op["o"] for op in reads})
        for _ in range(rng.randint(1, 5)):
            i = None
            if rendered and rng.random() < 0.8:
                ri = rendered[rng.randrange(len(rendered))]
                v = env.heap[ri]
                ms = g.methods_of(v)
                if ms:
                    i = g.g_call(ri, g.pick_method(v, ms))
            if i is None:
                i = g.next_op()
            op = g.program[i]
            before = c01.alias_snapshot(env, op)
            env.heap.append(engine.exec_op(env, op))
            if c01.alias_changed(env, before):
                discard = "autoalias on a shared object"
                break
    return {"program": g.program, "knobs": knobs, "env": env, "gen": g, "discard": discard, "rng": rng,
            "n1": n1, "n2": n2}


def execute_phases(program, n1, n2, st, plan=None, trace=None, rng=None, skip_reads=None):
    """Phase 1 sequentially, phase 2 under the simulator (or sequentially), phase 3 sequentially.
    skip_reads: set of read-op indices to leave out (ablation)."""
    only = None
    if skip_reads:
        only = set(range(len(program))) - set(skip_reads)
    if plan is None:
        return engine.execute(program, share_tables=st, only=only), None, None
    env = engine.execute(program[:n1], share_tables=st)
    if trace is not None:
        dec = sched.ReplayDecider(trace)
    elif plan.get("pct"):
        dec = sched.PCTDecider(rng, plan["pct"]["nact"], plan["pct"]["d"], plan["pct"]["est"])
    else:
        dec = sched.RandomDecider(rng, plan["mean_q"])
    assign = {int(k): v for k, v in plan["assign"].items()}
    sim = sched.Sim(program[:n2], assign, dec, share_tables=st, gran=plan["gran"],
                    faults=[dict(f) for f in plan["faults"]], stall=dict(plan["stall"]) if plan["stall"] else None,
                    env=env, op_faults=plan.get("op_faults"))
    env = sim.run()
    engine.execute(program, share_tables=st, env=env)
    return env, sim, dec.trace


def stmt_label(L, o):
    """Where the render code of this object lives + statement kind (the violation signature)."""
    kd = kind_of(L, o)
    cls = type(o)
    owner = c01.owner_of(cls, "get_sql")
    if kd == "qb":
        d = lib.state(o)
        sk = ("insert" if d.get("_insert_table") is not None else "update" if d.get("_update_table") is not None
              else "delete" if d.get("_delete_from") else "select")
        return f"{owner}.get_sql[{sk}]"
    return f"{owner}.get_sql"


def compare_all(program, env, st, okw, n1, n2):
    """Every completed read vs its rebuild value; every object vs its rebuild observation."""
    bad = []
    trail = []
    n_cmp = 0
    for i in range(len(program)):
        v = env.heap[i]
        if isinstance(v, (lang.Skipped, engine.MutableAlias)):
            trail.append(type(v).__name__)
            continue
        if isinstance(v, lang.Failed) and v.injected:
            trail.append("injected")
            continue
        a = engine.slot_obs(env, i, **okw)
        r = engine.reference_obs(program, i, st, **okw)
        n_cmp += 1
        trail.append(obs.strip_inprocess(a))
        d = obs.diff(a, r)
        if d:
            bad.append((i, d, a, r))
    return bad, n_cmp, trail


def one_run(seed, run, force_config=None, overrides=None, max_diag=3, seq_only=False):
    L = lib.get()
    b = build(seed, run, overrides)
    program, knobs, env, rng, n1, n2 = b["program"], b["knobs"], b["env"], b["rng"], b["n1"], b["n2"]
    config = "seq" if seq_only else c01.pick_config(rng, force_config, CONFIGS)
    okw = {"ctx_names": sorted(rng.sample(L.CTX_NAMES, 3))}
    st = knobs["share_tables"]
    res = {"run": run, "config": config, "nops": len(program), "discard": b["discard"], "violations": [],
           "not_c02": 0, "harness": [], "steps": 0, "switches": 0, "fired": {}, "overlap": 0, "n_cmp": 0,
           "shape": None, "nontrivial": False, "reads": n2 - n1, "schedule_hash": None, "preempt_in_lib": 0,
           "modes": {}, "labels": {}, "same_obj_overlap": 0}
    if b["discard"]:
        return res, program
    res["shape"] = runner.shape_of(program)
    reads = program[n1:n2]
    cnt = collections.Counter(op["o"] for op in reads)
    res["nontrivial"] = any(c >= 2 for c in cnt.values())
    res["modes"] = dict(collections.Counter(op["mode"] for op in reads))
    res["labels"] = dict(collections.Counter(stmt_label(L, env.heap[op["o"]]) for op in reads))

    plan = trace = None
    if config != "seq":
        # dry-run lengths of the read events (phase 2) under monitoring
        env0 = engine.execute(program[:n1], share_tables=st)
        msim = sched.Sim(program[:n2], {i: 0 for i in range(n2)}, sched.ReplayDecider([]), share_tables=st, env=env0)
        msim.run()
        op_len = msim.op_len
        sub = program[:n2]
        plan = c01.plan_sim(sub, knobs, rng, config, {i: l for i, l in op_len.items() if i >= n1})
        if config == "seq-fault":
            add_leaf_and_recursion_faults(plan, program, n1, n2, rng, op_len)
        env, sim, trace = execute_phases(program, n1, n2, st, plan, rng=rng)
        res["steps"] = sim.clock
        res["switches"] = sim.switches
        res["fired"] = dict(sim.fired)
        res["overlap"] = sim.overlap
        res["schedule_hash"] = "%016x" % sim.hash
        res["preempt_in_lib"] = getattr(sim, "preempt_in_lib", 0)
        res["same_obj_overlap"] = same_object_overlaps(sim, program)

    nfac = sum(1 for i in range(n1, n2) if program[i].get("fail_at") and isinstance(env.heap[i], lang.Failed)
               and env.heap[i].injected)
    if nfac:
        res["fired"]["caller_placeholder_factory_exc"] = nfac
    bad, n_cmp, trail = compare_all(program, env, st, okw, n1, n2)
    res["n_cmp"] = n_cmp
    res["xdigest"] = runner.digest([program, config, c01.plan_shape(plan), trail, sorted(res["fired"])])
    res["digest"] = runner.digest([res["xdigest"], trace, res["steps"], res["schedule_hash"]])
    res["trail_digests"] = [runner.digest(t) for t in trail]

    seen = set()
    read_idx = set(range(n1, n2))
    for victim, d, a, r in bad[:max_diag]:
        is_read = victim in read_idx
        # attribution: replay with the (other) read events removed
        others = read_idx - {victim}
        env_n, _, _ = execute_phases(program, n1, n2, st, None, skip_reads=others)
        a_n = engine.slot_obs(env_n, victim, **okw)
        r_n = engine.reference_obs(program, victim, st, **okw)
        if obs.diff(a_n, r_n):
            res["not_c02"] += 1  # wrong even without any other read: a builder-history defect (C01), not C02
            continue
        # with the reads, sequentially?  (the final observation pass is itself a sequence of reads - hash, ==,
        # renders of every live object - so it is repeated in full, in the same order)
        env_s, _, _ = execute_phases(program, n1, n2, st, None)
        bad_s, _, _ = compare_all(program, env_s, st, okw, n1, n2)
        hit = [x for x in bad_s if x[0] == victim]
        seq_fails = bool(hit)
        a_s = hit[0][2] if hit else engine.slot_obs(env_s, victim, **okw)
        obj = program[victim]["o"] if is_read else victim
        target = engine._deref(env_s, obj)
        label = stmt_label(L, target) if is_object_slot(target) else "?"
        what = "read" if is_read else ("continuation" if victim >= n2 else "trace")
        if seq_fails:
            kind = "repeat"
            payload_exec = {"config": "seq"}
            a_show, r_show = a_s, r_n
        elif plan is None:
            res["harness"].append({"victim": victim, "why": "sequential mismatch did not reproduce on re-execution"})
            continue
        else:
            kind = "thread" if config == "thr" else "fault"
            tr2 = trace
            if kind == "thread":
                def _fails(tr):
                    e3, _, _ = execute_phases(program, n1, n2, st, plan, trace=tr)
                    return bool(obs.diff(engine.slot_obs(e3, victim, **okw), r))
                tr2, _ok = sched.minimise_trace(_fails, trace)
            payload_exec = {"config": config, "plan": plan, "trace": tr2,
                            "schedule": {"decisions_recorded": len(trace), "decisions_after_minimisation": len(tr2),
                                         "preemptions_after_minimisation": sched.preemptions(tr2)}}
            a_show, r_show = a, r
        sig = f"{PROP}:{kind}:{what}:{label}"
        if sig in seen:
            continue
        seen.add(sig)
        prog2, v2, n1b, n2b = program, victim, n1, n2
        if kind == "repeat":
            prog2, v2, n1b, n2b = minimise_seq(program, victim, n1, n2, st, okw)
        dd = obs.diff(a_show, r_show)
        payload = {"property": PROP, "seed": seed, "run": run, "share_tables": st, "program": prog2, "victim": v2,
                   "n1": n1b, "n2": n2b, "okw": okw, "signature": sig, "differs_on": dd[:10],
                   "observed": {k: a_show.get(k) for k in dd[:3]}, "expected": {k: r_show.get(k) for k in dd[:3]},
                   "hashseed": os.environ.get("PYTHONHASHSEED", "random")}
        payload.update(payload_exec)
        res["violations"].append({"signature": sig, "payload": payload})
    return res, program


def same_object_overlaps(sim, program):
    """How many read events began while another actor was in the middle of a read of the SAME object."""
    open_ops = {}
    n = 0
    for seq, actor, what, i in sim.events:
        op = program[i]
        if op["op"] != "render":
            continue
        if what == "inv":
            if any(program[j]["o"] == op["o"] for a2, j in open_ops.items() if a2 != actor):
                n += 1
            open_ops[actor] = i
        else:
            open_ops.pop(actor, None)
    return n


def add_leaf_and_recursion_faults(plan, program, n1, n2, rng, op_len):
    """Sequential fault configs also use op-level faults: lowered recursion limit for one read."""
    cands = [i for i in range(n1, n2) if op_len.get(i, 0) > 10 and program[i]["mode"] in ("sql", "par", "str", "sql_flags")]
    taken = {f["op"] for f in plan["faults"]}
    cands = [i for i in cands if i not in taken]
    plan["op_faults"] = []
    if cands and rng.random() < 0.5:
        i = cands[rng.randrange(len(cands))]
        plan["op_faults"].append({"op": i, "kind": "recursion", "limit": rng.randint(4, 30)})
        cands = [j for j in cands if j != i]
    if cands and rng.random() < 0.6:
        i = cands[rng.randrange(len(cands))]
        plan["op_faults"].append({"op": i, "kind": "leaf_exc", "at": rng.randint(1, 3)})


def minimise_seq(program, victim, n1, n2, st, okw):
    """Smallest sub-history (reads and phase-3 ops removed greedily) that still fails sequentially."""
    base = set(lang.cone(program, victim))
    extra = set(range(len(program))) - base

    r_victim = engine.reference_obs(program, victim, st, **okw)

    def fails(keep):
        keep = set(keep)
        env = engine.execute(program, share_tables=st, only=keep)
        # same observation discipline as the check: every kept slot is observed, in order, then the victim is judged
        for i in sorted(keep):
            if i != victim and is_object_slot(env.heap[i]):
                engine.slot_obs(env, i, **okw)
        a = engine.slot_obs(env, victim, **okw)
        return bool(obs.diff(a, r_victim))

    if not fails(base | extra):
        return program, victim, n1, n2
    m = shrink.minimise_extra(program, base, extra, fails)
    keep = sorted(base | m)
    prog2, mp = shrink.slice_program(program, keep)
    n1b = sum(1 for k in keep if k < n1)
    n2b = sum(1 for k in keep if k < n2)
    return prog2, mp[victim], n1b, n2b


def replay(payload):
    prog, v, st, okw = payload["program"], payload["victim"], payload.get("share_tables", True), payload.get("okw") or {}
    n1, n2 = payload["n1"], payload["n2"]
    if payload.get("kind") == "hashseed":
        return replay_hashseed(payload)
    if payload.get("kind") == "history":
        return replay_history(payload)
    if payload.get("config", "seq") == "seq":
        env, _, _ = execute_phases(prog, n1, n2, st, None)
        bad, _, _ = compare_all(prog, env, st, okw, n1, n2)  # full observation pass, as in the check
        if any(x[0] == v for x in bad):
            return True, payload["signature"]
        return False, "not reproduced"
    env, _, _ = execute_phases(prog, n1, n2, st, payload["plan"], trace=payload["trace"])
    a = engine.slot_obs(env, v, **okw)
    r = engine.reference_obs(prog, v, st, **okw)
    if obs.diff(a, r):
        return True, payload["signature"]
    return False, "not reproduced"


# ------------------------------------------------------------------ crash-point enumeration (thorough tier)
def crashpoint_sweep(seed, run, max_steps=600):
    """COMPLETE enumeration, for one read event of one run, of every LINE step of that read as the point where
    an asynchronous exception is injected; afterwards every object of the population must equal its rebuild and
    the same read, performed again, must return the reference value."""
    L = lib.get()
    b = build(seed, run)
    if b["discard"]:
        return None
    program, n1, n2, st = b["program"], b["n1"], b["n2"], b["knobs"]["share_tables"]
    rr = random.Random(gen.derive_seed(seed, run, 0x5EE9))
    cands = [i for i in range(n1, n2) if program[i]["mode"] in ("sql", "par", "str", "sql_flags", "par_own")]
    if not cands:
        return None
    env0 = engine.execute(program[:n1], share_tables=st)
    msim = sched.Sim(program[:n2], {i: 0 for i in range(n2)}, sched.ReplayDecider([]), share_tables=st, env=env0)
    msim.run()
    cands = [i for i in cands if 10 <= msim.op_len.get(i, 0) <= max_steps]
    if not cands:
        return None
    r = cands[rr.randrange(len(cands))]
    sub = program[:n1] + [dict(program[r]), dict(program[r])]
    i1, i2 = n1, n1 + 1
    okw = {"ctx_names": sorted(rr.sample(L.CTX_NAMES, 2)), "light": True}
    env1 = engine.execute(sub[:n1], share_tables=st)
    m2 = sched.Sim(sub[: n1 + 1], {i: 0 for i in range(n1 + 1)}, sched.ReplayDecider([]), share_tables=st, env=env1)
    m2.run()
    steps = m2.op_len.get(i1, 0)
    refs = {i: engine.reference_obs(sub, i, st, **okw) for i in range(len(sub))}
    viol = []
    fired = 0
    for sstep in range(1, steps + 1):
        fk = "async_exc" if (sstep + run) % 3 else "async_err"
        env = engine.execute(sub[:n1], share_tables=st)
        sim = sched.Sim(sub, {i: 0 for i in range(len(sub))}, sched.ReplayDecider([]), share_tables=st,
                        faults=[{"op": i1, "step": sstep, "kind": fk}], env=env)
        env = sim.run()
        fired += sim.fired.get("async_exc", 0) + sim.fired.get("async_err", 0)
        for i in range(len(sub)):
            v = env.heap[i]
            if isinstance(v, lang.Skipped) or (isinstance(v, lang.Failed) and v.injected):
                continue
            a = engine.slot_obs(env, i, **okw)
            d = obs.diff(a, refs[i])
            if d:
                target = engine._deref(env, sub[i1]["o"])
                sig = f"{PROP}:fault:crashpoint:{stmt_label(L, target) if is_object_slot(target) else '?'}"
                viol.append((sig, {"property": PROP, "seed": seed, "run": run, "share_tables": st, "program": sub,
                                   "victim": i, "n1": n1, "n2": len(sub), "okw": okw, "signature": sig,
                                   "config": "seq-fault", "differs_on": d[:8],
                                   "plan": {"gran": "LINE", "assign": {str(j): 0 for j in range(len(sub))},
                                            "mean_q": 1 << 20, "stall": None,
                                            "faults": [{"op": i1, "step": sstep, "kind": fk}]},
                                   "trace": [], "observed": {k: a.get(k) for k in d[:2]},
                                   "expected": {k: refs[i].get(k) for k in d[:2]},
                                   "hashseed": os.environ.get("PYTHONHASHSEED", "random")}, run))
                break
        if viol:
            break
    return {"steps": steps, "fired": fired, "violations": viol}


# ------------------------------------------------------------------ hash-seed restart oracle
def seq_values(seed, run):
    """Per-slot plain values of the sequential execution of one run (hash values excluded)."""
    L = lib.get()
    b = build(seed, run)
    if b["discard"]:
        return None
    program, env = b["program"], b["env"]
    okw = {"inprocess": False}
    out = []
    for i in range(len(program)):
        v = env.heap[i]
        if isinstance(v, (lang.Skipped, engine.MutableAlias)):
            out.append(type(v).__name__)
        else:
            out.append(engine.slot_obs(env, i, **okw))
    return {"program_digest": runner.digest(program), "values": out}


def child_main():
    """Fresh-interpreter side of the restart oracle: stdin = {"seed","runs","detail"}; stdout = JSON."""
    task = json.loads(sys.stdin.read())
    out = {}
    for run in task["runs"]:
        sv = seq_values(task["seed"], run)
        if sv is None:
            out[str(run)] = None
        elif task.get("detail"):
            out[str(run)] = sv
        else:
            out[str(run)] = {"program_digest": sv["program_digest"], "values": [runner.digest(x) for x in sv["values"]]}
    sys.stdout.write(json.dumps(out))


def run_child(seed, runs, hashseed, detail=False):
    env = dict(os.environ)
    env["PYTHONHASHSEED"] = str(hashseed)
    env["PYTHONDONTWRITEBYTECODE"] = "1"
    code = "import sys; sys.path.insert(0, %r); from pikasim import c02; c02.child_main()" % HERE
    p = subprocess.run(["/venv/bin/python", "-c", code], env=env, input=json.dumps({"seed": seed, "runs": runs, "detail": detail}),
                       capture_output=True, text=True, timeout=1200)
    if p.returncode != 0:
        raise lang.HarnessError("restart child failed: " + p.stderr[-1500:])
    return json.loads(p.stdout)


def history_child_main():
    """Fresh interpreter: execute the programs of stdin {"progs":[{"program","share_tables"}..],"victim":i} one after
    the other in this one process (observing every slot, so that everything is rendered) and print the observation
    of slot `victim` of the LAST program."""
    task = json.loads(sys.stdin.read())
    lib.get()
    out = None
    for k, pr in enumerate(task["progs"]):
        env = engine.execute(pr["program"], share_tables=pr.get("share_tables", True))
        last = k == len(task["progs"]) - 1
        for i in range(len(pr["program"])):
            if last and i == task["victim"]:
                out = engine.slot_obs(env, i, inprocess=False)
            elif not isinstance(env.heap[i], (lang.Skipped, engine.MutableAlias)):
                engine.slot_obs(env, i, inprocess=False)
    sys.stdout.write(json.dumps(out))


def run_history_child(progs, victim, hashseed=None):
    env = dict(os.environ)
    if hashseed is not None:
        env["PYTHONHASHSEED"] = str(hashseed)
    env["PYTHONDONTWRITEBYTECODE"] = "1"
    code = "import sys; sys.path.insert(0, %r); from pikasim import c02; c02.history_child_main()" % HERE
    p = subprocess.run(["/venv/bin/python", "-c", code], env=env, input=json.dumps({"progs": progs, "victim": victim}),
                       capture_output=True, text=True, timeout=600)
    if p.returncode != 0:
        raise lang.HarnessError("history child failed: " + p.stderr[-1500:])
    return json.loads(p.stdout)


def minimise_history(cands, target, victim, alone):
    """`cands`: earlier programs of this process; find a 1-minimal sub-list after which `target`, executed in a fresh
    interpreter, yields something else than it does alone in a fresh interpreter.  Every probe is a new interpreter."""
    def differs(prelude):
        return run_history_child(prelude + [target], victim) != alone
    cur = None
    # a larger prelude is not always a stronger one (what an earlier program leaves behind can mask what a later one
    # would): try the whole history, then its younger half, then every single program, youngest first
    for trial in (list(cands), list(cands[len(cands) // 2:])):
        if trial and differs(trial):
            cur = trial
            break
    if cur is None:
        for pr in list(reversed(cands))[:150]:
            if differs([pr]):
                cur = [pr]
                break
    if cur is None:
        return None
    # halving first, then one at a time
    while len(cur) > 1:
        h = len(cur) // 2
        if differs(cur[h:]):
            cur = cur[h:]
        elif differs(cur[:h]):
            cur = cur[:h]
        else:
            break
    k = 0
    while k < len(cur) and len(cur) > 1:
        trial = cur[:k] + cur[k + 1:]
        if differs(trial):
            cur = trial
        else:
            k += 1
    # slice a single remaining prelude program down to the cone of one slot if that still suffices
    if len(cur) == 1:
        pr = cur[0]
        best = pr
        for i in range(len(pr["program"])):
            keep = sorted(lang.cone(pr["program"], i))
            if len(keep) >= len(best["program"]):
                continue
            p2, _ = shrink.slice_program(pr["program"], keep)
            cand = {"program": p2, "share_tables": pr.get("share_tables", True)}
            if differs([cand]):
                best = cand
        cur = [best]
    return cur


def hashseed_check(seed, runs, hashseeds, history=None):
    """Compare this process's sequential values of `runs` with fresh interpreters under other hash seeds."""
    L = lib.get()
    mine = {}
    for run in runs:
        sv = seq_values(seed, run)
        mine[run] = sv
    viol = []
    harness = []
    n = 0
    n_hist = 0
    for hs in hashseeds:
        theirs = run_child(seed, runs, hs)
        for run in runs:
            a, b = mine[run], theirs[str(run)]
            if a is None or b is None:
                if (a is None) != (b is None):
                    harness.append({"run": run, "why": "discard decision differs across hash seeds"})
                continue
            if a["program_digest"] != b["program_digest"]:
                harness.append({"run": run, "why": "generator is hash-seed dependent"})
                continue
            n += 1
            da = [runner.digest(x) for x in a["values"]]
            diffs = [i for i, (x, y) in enumerate(zip(da, b["values"])) if x != y]
            if not diffs:
                continue
            own_hs = os.environ.get("PYTHONHASHSEED", "random")
            det = run_child(seed, [run], hs, detail=True)[str(run)]
            i = diffs[0]
            va, vb = a["values"][i], det["values"][i]
            bld = build(seed, run)
            program, env = bld["program"], bld["env"]
            op = program[i]
            obj = op["o"] if op["op"] == "render" else i
            target = engine._deref(env, obj)
            label = stmt_label(L, target) if is_object_slot(target) else "?"
            keep = sorted(lang.cone(program, i))
            prog2, mp = shrink.slice_program(program, keep)
            # Which of the two things that differ between the processes is responsible?  Two fresh interpreters that
            # execute ONLY this run, one under each hash seed: if they agree, the hash seed is innocent and what differs
            # is what the processes had executed BEFORE this run (process-global state surviving from one render to
            # a later render of another object).
            alone_other = det["values"]
            alone_own = run_child(seed, [run], own_hs if own_hs != "random" else 0, detail=True)[str(run)]["values"]
            if alone_own == alone_other:
                tgt = {"program": program, "share_tables": bld["knobs"]["share_tables"]}
                alone = alone_own[i]
                n_hist += 1
                if n_hist > 3 or runner.stop_requested():
                    continue  # enough of these diagnosed in this batch (each costs tens of interpreter starts)
                # what this process executed before: the earlier batches of this worker, this batch
                cands = []
                for (s2, lo2, hi2) in PROCESS_LOG:
                    for r2 in range(lo2, hi2):
                        if (s2, r2) == (seed, run):
                            continue
                        b2 = build(s2, r2)  # discarded programs were executed as far as they got, too
                        cands.append({"program": b2["program"], "share_tables": b2["knobs"]["share_tables"]})
                prelude = minimise_history(cands, tgt, i, alone)
                sig = f"{PROP}:process-history:{label}"
                if prelude is not None:
                    after = run_history_child(prelude + [{"program": prog2, "share_tables": tgt["share_tables"]}], mp[i])
                    sliced_ok = after != alone
                    t2 = {"program": prog2, "share_tables": tgt["share_tables"]} if sliced_ok else tgt
                    v2 = mp[i] if sliced_ok else i
                    if not sliced_ok:
                        after = run_history_child(prelude + [tgt], i)
                    keys = obs.diff(after, alone) if isinstance(after, dict) and isinstance(alone, dict) else ["value"]
                    payload = {"property": PROP, "kind": "history", "seed": seed, "run": run, "prelude": prelude,
                               "program": t2["program"], "victim": v2, "n1": len(t2["program"]), "n2": len(t2["program"]),
                               "share_tables": t2["share_tables"], "signature": sig, "differs_on": keys[:8],
                               "after_prelude": {k: after.get(k) for k in keys[:2]} if isinstance(after, dict) else after,
                               "fresh_interpreter": {k: alone.get(k) for k in keys[:2]} if isinstance(alone, dict) else alone}
                    viol.append((sig, payload, run))
                else:
                    if os.environ.get("PIKASIM_DEBUG_HISTORY"):
                        sys.stderr.write("DEBUG-HISTORY %s\n" % json.dumps({"run": run, "slot": i, "log": PROCESS_LOG, "ncands": len(cands), "pid": os.getpid()}))
                    harness.append({"run": run, "why": "values differ between this long-lived process and a fresh "
                                    "interpreter, independent of the hash seed, but no sequential prelude of this "
                                    "batch's programs reproduces it in a fresh interpreter"})
                continue
            keys = obs.diff(va, vb) if isinstance(va, dict) and isinstance(vb, dict) else ["value"]
            sig = f"{PROP}:hashseed:{label}"
            payload = {"property": PROP, "kind": "hashseed", "seed": seed, "run": run, "program": prog2, "victim": mp[i],
                       "n1": len(prog2), "n2": len(prog2), "share_tables": bld["knobs"]["share_tables"],
                       "hashseeds": [os.environ.get("PYTHONHASHSEED", "random"), str(hs)], "signature": sig,
                       "differs_on": keys[:8],
                       "this_process": {k: va.get(k) for k in keys[:2]} if isinstance(va, dict) else va,
                       "other_process": {k: vb.get(k) for k in keys[:2]} if isinstance(vb, dict) else vb}
            viol.append((sig, payload, run))
    return viol, harness, n


def replay_history(payload):
    """Two fresh interpreters under one hash seed: the program alone, and the program after the recorded prelude."""
    tgt = {"program": payload["program"], "share_tables": payload.get("share_tables", True)}
    alone = run_history_child([tgt], payload["victim"])
    after = run_history_child(payload["prelude"] + [tgt], payload["victim"])
    if alone != after:
        return True, payload["signature"]
    return False, "not reproduced"


def replay_hashseed(payload):
    """Execute the recorded program in two fresh interpreters with the two recorded hash seeds."""
    code = ("import sys, json; sys.path.insert(0, %r); from pikasim import engine, lib; lib.get(); "
            "p=json.loads(sys.stdin.read()); env=engine.execute(p['program'], share_tables=p.get('share_tables', True)); "
            "print(json.dumps(engine.slot_obs(env, p['victim'], inprocess=False)))" % HERE)
    outs = []
    hss = payload["hashseeds"]
    if hss[0] == "random":
        hss = ["0", hss[1]]
    for hs in hss:
        env = dict(os.environ)
        env["PYTHONHASHSEED"] = str(hs)
        p = subprocess.run(["/venv/bin/python", "-c", code], env=env, input=json.dumps(payload), capture_output=True,
                           text=True, timeout=300)
        if p.returncode != 0:
            return False, "child failed: " + p.stderr[-500:]
        outs.append(json.loads(p.stdout))
    if outs[0] != outs[1]:
        return True, payload["signature"]
    return False, "not reproduced"


# ------------------------------------------------------------------ batch / evidence
TIERS = {
    "quick": {"runs": 6000, "chunk": 50, "wall_cap": 900, "hashseed_frac": 0.25, "hashseeds": [1, 4242]},
    "thorough": {"runs": 100000, "chunk": 200, "wall_cap": 5400, "hashseed_frac": 0.5, "hashseeds": [1, 7, 4242]},
}


PROCESS_LOG: list = []  # (seed, lo, hi) of every batch this worker process has executed, oldest first


def batch(task):
    L = lib.get()
    seed, lo, hi = task["seed"], task["lo"], task["hi"]
    PROCESS_LOG.append((seed, lo, hi))
    tier = TIERS[task.get("tier", "quick")]
    agg = new_agg()
    if runner.past_deadline():
        return agg  # the tier's soft time budget is used up: no further runs are started
    for run in range(lo, hi):
        try:
            res, program = runner.guarded(one_run, 120, seed, run, force_config=task.get("config"))
        except (runner.RunTimeout, lang.HarnessError) as e:
            agg["harness"].append({"run": run, "why": repr(e)[:200]})
            continue
        fold(agg, res, program)
        runner.note_violations(len(res["violations"]))
        if len(agg["violations"]) >= 12 or runner.stop_requested():
            break
    if task.get("tier") == "thorough":
        for run in range(lo, min(hi, lo + 3)):
            sw = crashpoint_sweep(seed, run)
            if sw is not None:
                agg["sweeps"] += 1
                agg["crashpoints"] += sw["steps"]
                agg["fired"]["async_exc_crashpoint_sweep"] += sw["fired"]
                agg["violations"].extend(sw["violations"])
                break
    # restart oracle on a deterministic subset of this batch's runs
    k = max(1, int((hi - lo) * tier["hashseed_frac"]))
    sub = list(range(lo, hi))[:k]
    if not task.get("no_hashseed"):
        viol, harness, n = hashseed_check(seed, sub, tier["hashseeds"], history=list(range(lo, hi)))
        agg["hashseed_compared"] += n
        agg["fired"]["hashseed_restart"] += n
        agg["harness"].extend(harness[:2])
        runner.note_violations(len(viol))
        for sig, payload, run in viol:
            agg["violations"].append((sig, payload, run))
    return agg


def new_agg():
    return {"runs": 0, "discards": 0, "ops": 0, "reads": 0, "n_cmp": 0, "not_c02": 0, "harness": [], "violations": [],
            "steps": 0, "switches": 0, "fired": collections.Counter(), "overlap": 0, "same_obj_overlap": 0,
            "shapes": set(), "nontrivial_shapes": set(), "configs": collections.Counter(), "samples": [],
            "schedules": set(), "preempt_in_lib": 0, "modes": collections.Counter(), "labels": collections.Counter(),
            "hashseed_compared": 0, "fault_runs": 0, "sweeps": 0, "crashpoints": 0}


def fold(agg, res, program):
    agg["runs"] += 1
    agg["configs"][res["config"]] += 1
    if res["discard"]:
        agg["discards"] += 1
        return
    agg["ops"] += res["nops"]
    agg["reads"] += res["reads"]
    agg["n_cmp"] += res["n_cmp"]
    agg["not_c02"] += res["not_c02"]
    agg["harness"].extend(res["harness"][:2])
    agg["steps"] += res["steps"]
    agg["switches"] += res["switches"]
    agg["fired"].update(res["fired"])
    if res["fired"]:
        agg["fault_runs"] += 1
    agg["overlap"] += res["overlap"]
    agg["same_obj_overlap"] += res["same_obj_overlap"]
    agg["preempt_in_lib"] += res["preempt_in_lib"]
    agg["shapes"].add(res["shape"])
    if res["nontrivial"]:
        agg["nontrivial_shapes"].add(res["shape"])
    agg["modes"].update(res["modes"])
    agg["labels"].update(res["labels"])
    if res["schedule_hash"]:
        agg["schedules"].add(res["schedule_hash"])
    if len(agg["samples"]) < 2 and res["nontrivial"] and res["nops"] <= 12:
        agg["samples"].append({"run": res["run"], "config": res["config"], "program": program})
    for v in res["violations"]:
        agg["violations"].append((v["signature"], v["payload"], res["run"]))


def merge(aggs):
    out = new_agg()
    for a in aggs:
        for k, v in a.items():
            if isinstance(v, set):
                out[k] |= v
            elif isinstance(v, collections.Counter):
                out[k].update(v)
            elif isinstance(v, list):
                out[k].extend(v)
            else:
                out[k] += v
    return out


ASSUMPTIONS = [
    "reference = the same read performed once on a linear rebuild of the object (no other reads, threads or faults)",
    "pre-emption/injection at LINE or INSTRUCTION boundaries of library frames; C-level calls are atomic (GIL)",
    "hash values are compared in-process only; cross-process comparison uses SQL, parameter lists and metadata",
    "the harness never passes a set to the API (iteration order of a caller's own set is the caller's)",
    "an interrupted read may fail and may leave a prefix in a caller-owned parameterizer; nothing else is relaxed",
    "seeded sampling, not exhaustive",
]


def evidence(agg, tier, seed, wall):
    rate = agg["runs"] / wall * 3600 if wall > 0 else 0
    cov = {
        "evaluations": agg["runs"],
        "distinct_nontrivial": len(agg["nontrivial_shapes"]),
        "rule": "one evaluation = one simulated run: a population of 3-10 related objects, 4-40 read events over it "
                "(six contexts x inline/parameterised/caller-owned parameterizer, str, repr, hash, ==, metadata) "
                "executed sequentially, with injected faults, or by 2-4 scheduled actor threads, then 1-5 further "
                "builder calls; every completed read and every live object is compared with the linear rebuild. "
                "distinct = distinct op-log shapes; non-trivial = some object is read at least twice",
        "samples": agg["samples"][:2] or [{"note": "no short sample in this batch"}],
        "distinct_shapes": len(agg["shapes"]),
        "configs": dict(agg["configs"]),
        "read_events": agg["reads"],
        "read_modes": dict(agg["modes"]),
        "rendered_statement_kinds": dict(agg["labels"]),
        "slots_compared_with_rebuild": agg["n_cmp"],
        "runs_per_hour": int(rate),
        "simulated_time_logical_steps": agg["steps"],
        "context_switches": agg["switches"],
        "preemptions_inside_library_frames": agg["preempt_in_lib"],
        "reads_begun_while_another_actor_mid_read": agg["overlap"],
        "reads_overlapping_a_read_of_the_same_object": agg["same_obj_overlap"],
        "distinct_interleavings_by_schedule_hash": len(agg["schedules"]),
        "faults_fired": dict(agg["fired"]),
        "runs_with_a_fired_fault": agg["fault_runs"],
        "runs_compared_across_interpreters_with_other_PYTHONHASHSEED": agg["hashseed_compared"],
        "cross_interpreter_oracle": "the values this long-lived worker obtains (after all earlier runs, threads and "
                                    "faults of its batches) are compared with fresh interpreters under other hash "
                                    "seeds; a difference is attributed by two more fresh interpreters that execute only "
                                    "that run: if they differ it is the hash seed (signature C02:hashseed), otherwise "
                                    "what was executed earlier in the process (C02:process-history), and the replay file "
                                    "then carries a minimised prelude program that reproduces it in a fresh interpreter",
        "complete_crashpoint_sweeps_of_one_read_event": agg["sweeps"],
        "crash_points_enumerated_in_those_sweeps": agg["crashpoints"],
        "discarded_runs": agg["discards"],
        "builder_history_mismatches_attributed_to_C01_not_C02": agg["not_c02"],
        "components": {"real": ["pypika_tortoise (whole package, imported from the repo working tree)"],
                       "stubbed": [], "harness_doubles": ["actor threads", "FaultyLeaf(Term)"]},
        "fault_kinds_not_applicable": ["message loss/dup/reorder", "partition", "disk error/torn write", "clock skew"],
    }
    return cov, ASSUMPTIONS, None

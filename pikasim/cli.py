"""Command line: ./check <ID> --tier quick|thorough | replay <file> | selftest <what>."""
from __future__ import annotations

import argparse
import importlib
import json
import os
import subprocess
import sys
import time

from . import lib, runner

MODULES = {"C01": "c01", "C02": "c02", "C13": "c13", "C15": "c15"}


def mod_for(prop):
    if prop not in MODULES:
        raise SystemExit(f"no check for {prop}")
    return importlib.import_module("pikasim." + MODULES[prop])


def chunks(n, size):
    return [(lo, min(n, lo + size)) for lo in range(0, n, size)]


def run_check(prop, tier, nruns=None, config=None, quiet=False):
    t0 = time.time()
    L = lib.get()
    m = mod_for(prop)
    seed = runner.base_seed()
    n = nruns or int(os.environ.get("VERIF_RUNS", "0")) or m.TIERS[tier]["runs"]
    size = m.TIERS[tier].get("chunk", 25)
    tasks = [{"seed": seed, "lo": lo, "hi": hi, "tier": tier, "config": config} for lo, hi in chunks(n, size)]
    cap = float(os.environ.get("VERIF_WALL_CAP", m.TIERS[tier].get("wall_cap", 900)))
    # soft budget: half of the hard cap; on 16 idle cores the tiers need a fraction of it
    runner.set_time_budget(float(os.environ.get("VERIF_TIME_BUDGET", cap / 2)))
    print(f"[{prop}] tier={tier} VERIF_SEED={seed} runs={n} jobs={runner.jobs()} repo={lib.REPO}", flush=True)
    regress = replay_regressions(prop, m)
    aggs = runner.pmap(m.batch, tasks, wall_cap=cap)
    agg = m.merge(aggs)
    for sig, payload in regress["reproduced"]:
        agg["violations"].append((sig, payload, payload.get("run", 0)))
    extra_status = 0
    if hasattr(m, "post"):
        extra_status = m.post(agg, tier, seed) or 0
    rep = runner.Report(prop)
    for sig, payload, run in agg["violations"]:
        rep.add(sig, payload, seed, run)
    wall = time.time() - t0
    cov, assumptions, extra = m.evidence(agg, tier, seed, wall)
    cov["stored_regression_histories_of_repaired_defects_replayed"] = regress["files"]
    cov["stored_regression_histories_reproduced"] = len(regress["reproduced"])
    cov["runs_requested"] = n
    cov["stopped_early_by_time_budget"] = bool(runner.past_deadline() and agg["runs"] < n)
    path = runner.write_evidence(prop, tier, seed, cov, wall, len(rep.new), assumptions, extra)
    status = rep.finish()
    if agg.get("harness"):
        print(f"HARNESS-ERROR property={prop} {len(agg['harness'])} event(s), first: {agg['harness'][0]}")
        status = status or 2
    if extra_status:
        status = status or extra_status
    if not quiet:
        print(f"[{prop}] runs={agg['runs']} distinct_nontrivial={cov['distinct_nontrivial']} "
              f"new_violations={len(rep.new)} known_met={sum(rep.known_hit.values())} wall={wall:.1f}s evidence={path}")
    if status == 0:
        print(f"[{prop}] OK: the property held on everything explored")
    return status


def replay_regressions(prop, m):
    """Replay the stored histories of every defect that was repaired (regressions/<prop>/*.json) before sampling:
    a repaired defect that comes back is reported immediately, under its original signature."""
    import glob
    d = os.path.join(runner.VERIF, "regressions", prop)
    out = {"files": 0, "reproduced": []}
    for f in sorted(glob.glob(os.path.join(d, "*.json"))):
        out["files"] += 1
        try:
            payload = json.load(open(f, encoding="utf-8"))
            ok, sig = m.replay(payload)
        except Exception as e:  # noqa: BLE001
            print(f"HARNESS-ERROR property={prop} regression file {f}: {type(e).__name__}: {e}")
            continue
        if ok:
            payload["regression_file"] = f
            out["reproduced"].append((sig, payload))
    print(f"[{prop}] {out['files']} stored regression histories of repaired defects replayed, "
          f"{len(out['reproduced'])} reproduced", flush=True)
    return out


def show_replay(path):
    """Print the recorded history as plain Python against the public API (a starting point for a hand reproduction)."""
    from . import topy
    payload = json.load(open(path, encoding="utf-8"))
    print(f"# {payload.get('signature')}  (property {payload.get('property')}, config {payload.get('config', payload.get('kind'))})")
    if payload.get("kind") == "holder":
        sp = payload["spec"]
        print("# holder scenario (pikasim/c15h.py: _build, _mutate): mutable-mode sub-query embedded at position "
              f"{sp['embed']!r} of a {sp['qcls']} parent (parent mutable-mode: {sp['parent_mutable']}), parent duplicated by "
              f"{sp['how']}" + (f" protocol {sp['proto']}" if sp.get("proto") is not None else "") +
              f", then in-place calls {sp['muts']} on the sub-query of the {'original' if sp['side'] == 'orig' else 'duplicate'}")
        print("# spec: " + json.dumps(sp))
        for k in ("what", "differs_on", "before", "after", "original", "duplicate", "detail", "error"):
            if k in payload:
                print(f"# {k}: {json.dumps(payload[k])[:600]}")
        return 0
    prog = payload["program"]
    if isinstance(prog, dict):
        print("# canonical delivery order:")
        print(topy.c13_program(prog, payload.get("canonical") or []))
        if payload.get("merge"):
            print("# the order that differs:")
            print(topy.c13_program(prog, payload["merge"]))
    else:
        if payload.get("kind") == "history":
            for k, pr in enumerate(payload.get("prelude") or []):
                print(f"# ---- earlier in the same interpreter (prelude program {k}): every object below is rendered once")
                print(topy.program(pr["program"], None))
            print("# ---- then, in the same interpreter, the program whose output differs from a fresh interpreter's:")
        print(topy.program(prog, payload.get("victim")))
    for k in ("differs_on", "observed", "expected", "after_prelude", "fresh_interpreter", "this_process", "other_process", "plan"):
        if k in payload and k != "plan":
            print(f"# {k}: {json.dumps(payload[k])[:600]}")
    if payload.get("plan"):
        pl = payload["plan"]
        print(f"# simulated with: granularity {pl.get('gran')}, faults {pl.get('faults')}, stall {pl.get('stall')}, "
              f"{len(payload.get('trace') or [])} recorded scheduling decisions (replay with ./check replay {path})")
    return 0


def run_replay(path):
    payload = json.load(open(path, encoding="utf-8"))
    prop = payload["property"]
    m = mod_for(prop)
    lib.get()
    ok, sig = m.replay(payload)
    if ok:
        print(f"VIOLATION property={prop} replay={os.path.abspath(path)}")
        print(f"  signature: {sig}")
        if sig != payload.get("signature"):
            print(f"  note: recorded signature was {payload.get('signature')}")
        return 1
    print(f"NOT-REPRODUCED property={prop} replay={path} ({sig})")
    return 2


def main(argv=None):
    ap = argparse.ArgumentParser(prog="check")
    ap.add_argument("what")
    ap.add_argument("arg", nargs="?")
    ap.add_argument("--tier", default=os.environ.get("VERIF_TIER", "quick"), choices=["quick", "thorough"])
    ap.add_argument("--runs", type=int, default=None)
    ap.add_argument("--config", default=None)
    a = ap.parse_args(argv)
    if a.what == "replay":
        return run_replay(a.arg)
    if a.what == "show":
        return show_replay(a.arg)
    if a.what == "selftest":
        from . import selftest
        return selftest.main(a.arg or "all", a.tier)
    try:
        return run_check(a.what, a.tier, a.runs, a.config)
    except Exception as e:  # noqa: BLE001  a defect of the harness is never reported as a violation (exit 1)
        import traceback
        traceback.print_exc()
        print(f"HARNESS-ERROR property={a.what} {type(e).__name__}: {str(e)[:300]}")
        return 2

"""Program language: JSON-serialisable term specs and operations, and their evaluator.

A *program* is a list of ops; op k writes heap slot k.  Specs never hold Python references;
`{"t":"var","i":n}` passes heap slot n BY REFERENCE (this is what creates aliasing between
heap objects); every other spec is evaluated to fresh objects (tables optionally through a
per-heap cache so that equal tables are the same object).
"""
from __future__ import annotations

import datetime
import decimal
import operator
import uuid

from . import lib


class HarnessError(Exception):
    """A defect of the harness itself (bad spec, bad index); never a property violation."""


class InjectedFault(BaseException):
    """Asynchronous exception injected by the simulator (not an Exception subclass on purpose)."""


class InjectedError(Exception):
    """Asynchronous exception of the ordinary kind (what a worker-timeout or signal handler that raises
    TimeoutError/RuntimeError looks like): unlike InjectedFault it IS caught by `except Exception` in library code."""


class Failed:
    """Heap slot content for an op that raised."""

    __slots__ = ("exc", "msg", "injected", "stage")

    def __init__(self, exc: str, msg: str = "", injected: bool = False, stage: str = "call"):
        self.exc = exc
        self.msg = msg
        self.injected = injected
        self.stage = stage

    def __repr__(self):
        return f"Failed({self.exc}, stage={self.stage}, injected={self.injected})"


class Skipped:
    """Heap slot content for an op that could not run because a dependency failed."""

    def __repr__(self):
        return "Skipped"


class Value:
    """Heap slot content for a read event (render / hash / eq): a plain normalised value."""

    __slots__ = ("v",)

    def __init__(self, v):
        self.v = v


ARMED_LEAF_STATES: list = []  # leaf-fault states currently armed (so harness-side rendering can stand aside)


class quiet_faults:
    """Harness-side rendering (normalising Term objects found in a parameter list) must not be hit by the op-level
    faults of the read it belongs to: disarm faulty leaves and lift a lowered recursion limit for its duration."""

    def __enter__(self):
        import sys
        self.lim = sys.getrecursionlimit()
        if self.lim < 3000:
            sys.setrecursionlimit(3000 + self.lim)
        self.states = [(st, st.armed) for st in ARMED_LEAF_STATES]
        for st, _ in self.states:
            st.armed = False
        return self

    def __exit__(self, *a):
        import sys
        for st, was in self.states:
            st.armed = was
        sys.setrecursionlimit(self.lim)
        return False


class FaultyLeafState:
    def __init__(self):
        self.armed = False
        self.calls = 0
        self.fire_at = 0


def make_faulty_leaf_cls(L):
    class FaultyLeaf(L.terms.Term):
        """User-defined Term subclass (a supported extension point) whose get_sql can raise."""

        is_aggregate = None

        def __init__(self, label="F", state=None):
            super().__init__(None)
            self.label = label
            self._state = state

        def get_sql(self, ctx):
            st = self._state
            if st is not None and st.armed:
                st.calls += 1
                if st.calls == st.fire_at:
                    st.armed = False
                    raise RuntimeError("faulty leaf")
            return "LEAF_" + self.label

    return FaultyLeaf


_BIN = {
    "add": operator.add, "sub": operator.sub, "mul": operator.mul, "div": operator.truediv,
    "pow": operator.pow, "mod": operator.mod, "eq": operator.eq, "ne": operator.ne,
    "gt": operator.gt, "ge": operator.ge, "lt": operator.lt, "le": operator.le,
    "and": operator.and_, "or": operator.or_, "xor": operator.xor, "getitem": operator.getitem,
}
_UN = {"neg": operator.neg, "not": operator.invert, "pos": operator.pos}


class Env:
    """One heap.  `share_tables`: equal inline table specs evaluate to the same Table object."""

    def __init__(self, share_tables: bool = True):
        self.L = lib.get()
        self.heap: list = []
        self.share_tables = share_tables
        self.tcache: dict = {}
        self.leaf_state = FaultyLeafState()
        self._leaf_cls = None

    # ------------------------------------------------------------------ spec evaluation
    def ev(self, s):
        if s is None or isinstance(s, (bool, int, float, str)):
            return s
        if isinstance(s, list):
            return [self.ev(x) for x in s]
        if not isinstance(s, dict):
            raise HarnessError(f"bad spec {s!r}")
        t = s["t"]
        f = getattr(self, "_ev_" + t, None)
        if f is None:
            raise HarnessError(f"unknown spec type {t}")
        return f(s)

    def _ev_var(self, s):
        i = s["i"]
        if not (0 <= i < len(self.heap)):
            raise HarnessError(f"var {i} out of range")
        o = self.heap[i]
        if isinstance(o, (Failed, Skipped, Value)):
            raise HarnessError(f"var {i} refers to a non-object slot {o!r}")
        return o

    def _ev_table(self, s):
        L = self.L
        key = None
        if self.share_tables and not s.get("fresh"):
            key = (s["name"], s.get("alias"), repr(s.get("schema")), s.get("qc"), repr(s.get("for")),
                   repr(s.get("forp")))
            if key in self.tcache:
                return self.tcache[key]
        kw = {}
        if s.get("schema") is not None:
            kw["schema"] = self.ev(s["schema"])
        if s.get("alias") is not None:
            kw["alias"] = s["alias"]
        if s.get("qc"):
            kw["query_cls"] = L.QUERY_CLASSES[s["qc"]]
        tb = L.queries.Table(s["name"], **kw)
        if s.get("for") is not None:
            tb = tb.for_(self.ev(s["for"]))
        if s.get("forp") is not None:
            tb = tb.for_portion(self.ev(s["forp"]))
        if key is not None:
            self.tcache[key] = tb
        return tb

    def _ev_schema(self, s):
        L = self.L
        parent = self.ev(s.get("parent")) if s.get("parent") is not None else None
        cls = L.queries.Database if s.get("db") else L.queries.Schema
        return cls(s["name"], parent) if parent is not None else cls(s["name"])

    def _ev_field(self, s):
        L = self.L
        tbl = self.ev(s.get("tbl")) if s.get("tbl") is not None else None
        via = s.get("via")
        if via == "attr" and tbl is not None:
            f = getattr(tbl, s["name"])
        elif via == "item" and tbl is not None:
            f = tbl[s["name"]]
        else:
            f = L.terms.Field(s["name"], table=tbl)
        if s.get("alias") is not None:
            f = f.as_(s["alias"])
        return f

    def _ev_star(self, s):
        L = self.L
        if s.get("tbl") is None:
            return L.terms.Star()
        tbl = self.ev(s["tbl"])
        return tbl.star if s.get("via") == "prop" else L.terms.Star(tbl)

    def _ev_v(self, s):
        k = s["k"]
        v = s.get("v")
        if k in ("int", "str", "float", "bool"):
            return v
        if k == "none":
            return None
        if k == "date":
            return datetime.date.fromisoformat(v)
        if k == "datetime":
            return datetime.datetime.fromisoformat(v)
        if k == "time":
            return datetime.time.fromisoformat(v)
        if k == "uuid":
            return uuid.UUID(v)
        if k == "decimal":
            return decimal.Decimal(v)
        if k == "list":
            return [self.ev(x) for x in v]
        if k == "tuple":
            return tuple(self.ev(x) for x in v)
        if k == "dict":
            return {kk: self.ev(vv) for kk, vv in v.items()}
        raise HarnessError(f"bad value kind {k}")

    def _ev_bin(self, s):
        return _BIN[s["op"]](self.ev(s["l"]), self.ev(s["r"]))

    def _ev_un(self, s):
        return _UN[s["op"]](self.ev(s["x"]))

    def _ev_meth(self, s):
        x = self.ev(s["x"])
        a = [self.ev(y) for y in s.get("a", [])]
        kw = {k: self.ev(v) for k, v in s.get("kw", {}).items()}
        return getattr(x, s["m"])(*a, **kw)

    def _ev_attr(self, s):
        return getattr(self.ev(s["x"]), s["name"])

    def _ev_cls(self, s):
        return self.L.QUERY_CLASSES[s["name"]]

    def _ev_reg(self, s):
        c = self.L.REG.get(s["c"])
        if c is None:
            raise HarnessError(f"unknown class {s['c']}")
        return c

    def _ev_new(self, s):
        c = self.L.REG.get(s["c"])
        if c is None:
            raise HarnessError(f"unknown class {s['c']}")
        a = [self.ev(y) for y in s.get("a", [])]
        kw = {k: self.ev(v) for k, v in s.get("kw", {}).items()}
        return c(*a, **kw)

    def _ev_enum(self, s):
        return getattr(self.L.ENUMS[s["c"]], s["v"])

    def _ev_const(self, s):
        return self.L.CONSTS[s["name"]]

    def _ev_slice(self, s):
        return slice(s.get("a"), s.get("b"))

    def _ev_leaf(self, s):
        if self._leaf_cls is None:
            self._leaf_cls = make_faulty_leaf_cls(self.L)
        return self._leaf_cls(s.get("label", "F"), self.leaf_state)

    def _ev_join(self, s):
        """inline join: x.join(item, how).<fin>(*a, **kw)"""
        x = self.ev(s["x"])
        item = self.ev(s["item"])
        j = x.join(item, self.ev(s["how"])) if s.get("how") is not None else x.join(item)
        a = [self.ev(y) for y in s.get("a", [])]
        kw = {k: self.ev(v) for k, v in s.get("kw", {}).items()}
        return getattr(j, s["fin"])(*a, **kw)


# ---------------------------------------------------------------------- op helpers
def spec_vars(s, out=None):
    """Heap indices referenced (by reference) inside a spec / op."""
    if out is None:
        out = []
    if isinstance(s, dict):
        if s.get("t") == "var":
            out.append(s["i"])
        else:
            for v in s.values():
                spec_vars(v, out)
    elif isinstance(s, list):
        for v in s:
            spec_vars(v, out)
    return out


def op_deps(op) -> list[int]:
    d = []
    for k in ("r", "o"):
        if k in op and op[k] is not None:
            d.append(op[k])
    for k in ("x", "a", "kw", "item", "how", "panel"):
        if k in op:
            spec_vars(op[k], d)
    return sorted(set(d))


def cone(program, target: int) -> list[int]:
    """Indices of ops the target slot transitively depends on (including itself), ascending."""
    need = {target}
    stack = [target]
    while stack:
        i = stack.pop()
        for d in op_deps(program[i]):
            if d not in need:
                need.add(d)
                stack.append(d)
    return sorted(need)


def op_label(op, heap=None) -> str:
    k = op["op"]
    if k == "call":
        return "call:" + op["m"]
    if k == "join":
        return "join:" + op["fin"]
    if k == "new":
        x = op["x"]
        return "new:" + (x.get("t", "?") if isinstance(x, dict) else "py")
    return k

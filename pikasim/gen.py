"""Seeded generator of programs.  Looks only at the *types* (and plain attributes such as
`alias is None`) of heap entries, never at id(), repr addresses, set order or string hashing,
so one seed gives one program under every PYTHONHASHSEED."""
from __future__ import annotations

import random

from . import lib
from .engine import MutableAlias, is_object_slot
from .lang import Env
from .obs import kind_of

M64 = (1 << 64) - 1


def splitmix(x: int) -> int:
    x = (x + 0x9E3779B97F4A7C15) & M64
    z = x
    z = ((z ^ (z >> 30)) * 0xBF58476D1CE4E5B9) & M64
    z = ((z ^ (z >> 27)) * 0x94D049BB133111EB) & M64
    return z ^ (z >> 31)


def derive_seed(base: int, *parts: int) -> int:
    x = splitmix(base & M64)
    for p in parts:
        x = splitmix(x ^ (p & M64))
    return x


TABLE_POOL = [
    {"t": "table", "name": "a"},
    {"t": "table", "name": "b"},
    {"t": "table", "name": "c"},
    {"t": "table", "name": "a", "alias": "a1"},
    {"t": "table", "name": "b", "alias": "b1"},
    {"t": "table", "name": "d", "schema": "s"},
    {"t": "table", "name": "e", "schema": ["db", "s"]},
]
COLS = ["x", "y", "z", "id"]
ALIASES = ["al", "foo", "x", "k1", "sq9"]
STRS = ["v", "o'k", "a\\b", "", "100%", "*", "x y", "naïve", "dir\\", "naïve o'k"]
QCLS = ["Query", "MySQLQuery", "PostgreSQLQuery", "SQLLiteQuery", "MSSQLQuery", "OracleQuery"]
FN1 = ["fn.Sum", "fn.Avg", "fn.Min", "fn.Max", "fn.Count", "fn.Abs", "fn.Upper", "fn.Lower", "fn.Length",
       "fn.Floor", "fn.Sqrt", "fn.First", "fn.Last", "fn.Std", "fn.StdDev", "fn.Ascii", "fn.Reverse", "fn.Trim",
       "fn.IsNull", "fn.Date", "fn.Timestamp", "fn.Bin"]
FN2 = ["fn.Coalesce", "fn.IfNull", "fn.NVL", "fn.NullIf", "fn.Concat", "fn.DateDiff3", "fn.TimeDiff", "fn.ToChar",
       "fn.ToDate", "fn.SplitPart3", "fn.RegexpLike", "fn.DateAdd3", "fn.Substring3"]
AGG = ["fn.Sum", "fn.Avg", "fn.Min", "fn.Max", "fn.Count", "fn.Std", "fn.StdDev", "fn.First", "fn.Last"]
AN_PLAIN = ["an.Rank", "an.DenseRank", "an.RowNumber"]
AN_ARG = ["an.NTile", "an.Median", "an.Lag", "an.Lead"]
AN_FRAME = ["an.Avg", "an.StdDev", "an.StdDevPop", "an.StdDevSamp", "an.Variance", "an.VarPop", "an.VarSamp",
            "an.Count", "an.Sum", "an.Max", "an.Min", "an.FirstValue", "an.LastValue"]
SQLTYPES = ["SqlTypes.INTEGER", "SqlTypes.FLOAT", "SqlTypes.BOOLEAN", "SqlTypes.DATE", "SqlTypes.VARCHAR",
            "SqlTypes.CHAR", "SqlTypes.SIGNED"]
JOINTYPES = ["inner", "left", "right", "outer", "left_outer", "right_outer", "full_outer", "cross", "hash"]
SETOPS = ["union", "union_all", "intersect", "except_of", "minus"]


def default_knobs(rng: random.Random, prop: str) -> dict:
    k = {
        "nops": rng.randint(3, 24),
        "depth": rng.choice([1, 1, 2, 2, 3, 4]),
        "p_ref": rng.choice([0.15, 0.3, 0.5, 0.7]),
        "share_tables": rng.random() < 0.7,
        "qcls": rng.sample(QCLS, rng.randint(1, 3)),
        "p_new": rng.choice([0.2, 0.3, 0.45]),
        "p_repeat": rng.choice([0.2, 0.35, 0.5]),
        "autoalias": False,
        "mutable": False,
        "focus": rng.choice(["any", "any", "qb", "qb", "term", "ddl", "setop"]),
    }
    return k


class Gen:
    def __init__(self, rng: random.Random, knobs: dict, env: Env):
        self.rng = rng
        self.k = knobs
        self.env = env
        self.L = lib.get()
        self.program: list = []
        self.meta: dict[int, dict] = {}
        self.last = None  # (recv index, method, result index)
        self.uncovered: set = set()
        self.alias_n = 0

    # ------------------------------------------------------------------ small helpers
    def ch(self, xs):
        return xs[self.rng.randrange(len(xs))]

    def p(self, x):
        return self.rng.random() < x

    def wch(self, pairs):
        tot = sum(w for _, w in pairs)
        r = self.rng.random() * tot
        for v, w in pairs:
            r -= w
            if r < 0:
                return v
        return pairs[-1][0]

    def var(self, i):
        return {"t": "var", "i": i}

    def slots(self, pred):
        out = []
        h = self.env.heap
        for i in range(len(h)):
            v = h[i]
            if is_object_slot(v) and pred(v, i):
                out.append(i)
        return out

    def kind(self, v):
        return kind_of(self.L, v)

    def alias_of(self, v):
        d = lib.state(v)
        return d.get("alias") if isinstance(d, dict) else None

    def is_mutable(self, v):
        d = lib.state(v)
        return isinstance(d, dict) and d.get("immutable", True) is False

    def new_alias(self):
        self.alias_n += 1
        return self.ch(ALIASES) if self.p(0.5) else "n%d" % self.alias_n

    # ------------------------------------------------------------------ leaves
    def g_pyval(self, simple=False):
        r = self.rng
        kinds = ["int", "int", "str", "str", "float", "bool", "none"]
        if not simple:
            kinds += ["date", "datetime", "time", "uuid", "decimal", "list", "dict"]
        k = self.ch(kinds)
        if k == "int":
            return self.ch([0, 1, 2, 5, 10, -1, -7, 42, 1000])
        if k == "str":
            return self.ch(STRS)
        if k == "float":
            return self.ch([1.5, 0.25, -2.5, 3.0, 0.0, -0.0])
        if k == "bool":
            return r.random() < 0.5
        if k == "none":
            return None
        if k == "date":
            return {"t": "v", "k": "date", "v": self.ch(["2020-01-02", "1999-12-31"])}
        if k == "datetime":
            # includes one instant spelled in two time zones (equal values, different text)
            return {"t": "v", "k": "datetime", "v": self.ch(["2020-01-02T03:04:05", "2021-06-07T08:09:10.000123",
                                                             "2020-01-02T12:00:00+00:00", "2020-01-02T13:00:00+01:00"])}
        if k == "time":
            return {"t": "v", "k": "time", "v": self.ch(["03:04:05", "23:59:59.5"])}
        if k == "uuid":
            return {"t": "v", "k": "uuid", "v": "12345678-1234-5678-1234-567812345678"}
        if k == "decimal":
            return {"t": "v", "k": "decimal", "v": self.ch(["1.50", "1.5", "-0.001"])}
        if k == "list":
            return [self.g_pyval(simple=True) for _ in range(r.randint(0, 3))]
        if k == "dict":
            return {"t": "v", "k": "dict", "v": {"k": self.ch([1, "s", None]), "n": [1, 2]}}
        return 1

    def g_table(self, join_pos=False, allow_ref=True):
        """A table spec: heap reference or inline."""
        if allow_ref and self.p(self.k["p_ref"]):
            def ok(v, i):
                if self.kind(v) != "table":
                    return False
                if join_pos and not self.k["autoalias"] and self.alias_of(v) is None:
                    return False
                return True
            c = self.slots(ok)
            if c:
                return self.var(self.ch(c))
        s = dict(self.ch(TABLE_POOL))
        if join_pos:
            s["fresh"] = True
        elif self.p(0.1):
            s["fresh"] = True
        if self.p(0.08):
            s["qc"] = self.ch(self.k["qcls"])
        return s

    def scope_table(self, scope):
        if scope and self.p(0.8):
            return self.ch(scope)
        return self.g_table()

    def g_field(self, scope=None, alias_ok=True):
        if self.p(self.k["p_ref"] * 0.25):
            # a Field object of the heap passed by reference (the same object may sit in several statements)
            F = self.L.terms.Field
            c = self.slots(lambda v, i: self.kind(v) == "term" and type(v) is F
                           and (alias_ok or lib.state(v).get("alias") is None))
            if c:
                return self.var(self.ch(c))
        tbl = self.scope_table(scope) if self.p(0.85) else None
        s = {"t": "field", "name": self.ch(COLS), "tbl": tbl}
        if tbl is not None and self.p(0.25):
            s["via"] = self.ch(["attr", "item"])
        if alias_ok and self.p(0.15):
            s["alias"] = self.new_alias()
        return s

    def term_ref(self, crit=False):
        T = self.L.terms
        def ok(v, i):
            if self.kind(v) != "term":
                return False
            if crit:
                return isinstance(v, T.Criterion) and not isinstance(v, T.Field)
            return True
        c = self.slots(ok)
        if c:
            return self.var(self.ch(c))
        return None

    def query_ref(self, need_alias=False, setop_ok=True, same_cls=None, select_only=False):
        Q = self.L.queries
        def ok(v, i):
            kd = self.kind(v)
            if kd == "qb":
                if self.is_mutable(v):
                    return False
                if self.k.get("select_subqueries_only") or select_only:
                    d = lib.state(v)
                    if d.get("_insert_table") is not None or d.get("_update_table") is not None or d.get("_delete_from") \
                            or not d.get("_selects"):
                        return False  # only SELECT statements are meaningful as sub-queries
                if need_alias and not self.k["autoalias"] and self.alias_of(v) is None:
                    return False
                return True
            if kd == "setop" and setop_ok:
                if need_alias and not self.k["autoalias"] and self.alias_of(v) is None:
                    return False
                return True
            return False
        c = self.slots(ok)
        if c:
            return self.var(self.ch(c))
        return None

    # ------------------------------------------------------------------ expressions
    def g_wrapped(self):
        s = {"t": "new", "c": "ValueWrapper", "a": [self.g_pyval()]}
        if self.p(0.2):
            s["kw"] = {"alias": self.new_alias()}
        if self.p(0.12):
            s.setdefault("kw", {})["allow_parametrize"] = False  # public flag: this constant is never bound
        return s

    def g_expr(self, d, scope=None, term_only=True):
        """An expression spec evaluating to a Term (or a raw python value if not term_only)."""
        if self.p(self.k["p_ref"] * 0.6):
            r = self.term_ref()
            if r is not None:
                return r
        if d <= 0:
            if self.k.get("p_leaf") and self.p(self.k["p_leaf"]):
                return {"t": "leaf", "label": self.ch(["A", "B"])}
            c = self.wch([("field", 6), ("val", 3), ("star", 0.0 if self.k.get("no_star_leaf") else 0.3), ("param", 0.3),
                          ("pseudo", 0.2), ("null", 0.2)])
            if c == "field":
                return self.g_field(scope)
            if c == "val":
                return self.g_wrapped() if term_only else self.g_pyval()
            if c == "star":
                return {"t": "star", "tbl": self.scope_table(scope) if self.p(0.7) else None}
            if c == "param":
                return {"t": "new", "c": "Parameter", "a": [self.ch(["?", "%s", ":1"])]} if self.p(0.5) else \
                    {"t": "new", "c": "Parameter", "kw": {"idx": self.rng.randint(1, 3)}}
            if c == "pseudo":
                return {"t": "const", "name": "pseudo." + self.ch(["RowNum", "SysDate", "RowID"])}
            return {"t": "const", "name": "NULL"}
        c = self.wch([("arith", 5), ("fn1", 3), ("fn2", 1.5), ("neg", 0.7), ("case", 1), ("analytic", 1),
                      ("cast", 0.6), ("powmod", 0.5), ("tuple", 0.5), ("array", 0.4), ("json", 0.5),
                      ("interval", 0.4), ("subq", 2.4 if self.k["autoalias"] else 0.6), ("extract", 0.3), ("leaf", 2), ("crit", 0.5),
                      ("aliased", 0.8), ("bracket", 0.2), ("attz", 0.15), ("custom", 0.3), ("now", 0.2),
                      ("rare", 0.7)])
        if c == "rare":
            return self.g_rare(d, scope)
        if c == "leaf":
            return self.g_expr(0, scope)
        if c == "arith":
            op = self.ch(["add", "sub", "mul", "div"])
            l = self.g_expr(d - 1, scope)
            r = self.g_expr(d - 1, scope) if self.p(0.6) else self.g_pyval(simple=True)
            if r is None or isinstance(r, (bool, str, list)):
                r = self.ch([1, 2, -1, 0.5])
            if self.p(0.15):
                return {"t": "bin", "op": op, "l": self.ch([1, 2, 10]), "r": l}  # reflected operator
            return {"t": "bin", "op": op, "l": l, "r": r}
        if c == "fn1":
            name = self.ch(FN1)
            arg = self.g_expr(d - 1, scope) if self.p(0.85) else self.g_pyval(simple=True)
            if name == "fn.Count" and self.p(0.3):
                arg = "*"
            s = {"t": "new", "c": name, "a": [arg]}
            if self.p(0.2):
                s["kw"] = {"alias": self.new_alias()}
            if name in ("fn.Count", "fn.Sum") and self.p(0.3):
                s = {"t": "meth", "x": s, "m": "distinct"}
            if name in AGG and self.p(0.25):
                s = {"t": "meth", "x": s, "m": "filter", "a": [self.g_crit(d - 1, scope)]}
            return s
        if c == "fn2":
            name = self.ch(FN2)
            if name == "fn.SplitPart3":
                return {"t": "new", "c": "fn.SplitPart", "a": [self.g_expr(d - 1, scope), ",", 1]}
            if name in ("fn.DateDiff3", "fn.DateAdd3"):
                return {"t": "new", "c": name[:-1], "a": [self.ch(["day", "month"]), self.g_expr(d - 1, scope),
                                                          self.g_expr(d - 1, scope) if self.p(0.5) else 7]}
            if name == "fn.Substring3":
                return {"t": "new", "c": "fn.Substring", "a": [self.g_expr(d - 1, scope), 1, 3]}
            if name == "fn.RegexpLike":
                return {"t": "new", "c": name, "a": [self.g_expr(d - 1, scope), "^a.*"]}
            return {"t": "new", "c": name, "a": [self.g_expr(d - 1, scope),
                                                 self.g_expr(d - 1, scope) if self.p(0.5) else self.g_pyval(True)]}
        if c == "neg":
            return {"t": "un", "op": "neg", "x": self.g_expr(d - 1, scope)}
        if c == "case":
            return self.g_case(d, scope)
        if c == "analytic":
            return self.g_analytic(d, scope)
        if c == "cast":
            return {"t": "new", "c": "fn.Cast", "a": [self.g_expr(d - 1, scope),
                                                     {"t": "const", "name": self.ch(SQLTYPES)}]}
        if c == "powmod":
            return {"t": "bin", "op": self.ch(["pow", "mod"]), "l": self.g_expr(d - 1, scope), "r": self.ch([2, 3, 10])}
        if c == "tuple":
            return {"t": "new", "c": "Tuple", "a": [self.g_expr(d - 1, scope, term_only=False)
                                                   for _ in range(self.rng.randint(1, 3))]}
        if c == "array":
            return {"t": "new", "c": "Array", "a": [self.g_pyval(simple=True) for _ in range(self.rng.randint(0, 3))]}
        if c == "json":
            j = {"t": "new", "c": "JSON", "a": [self.ch([{"t": "v", "k": "dict", "v": {"a": 1, "b": "t"}},
                                                        [1, "two", 3], "plain", "it's",
                                                        {"t": "v", "k": "dict", "v": {"q": "o'k", "n": None}}])]}
            if self.p(0.5):
                m = self.ch(["get_json_value", "get_text_value", "has_key", "contains", "contained_by",
                             "get_path_json_value", "has_keys", "has_any_keys"])
                arg = ["k1", "k2"] if m in ("has_keys", "has_any_keys") else \
                    self.ch(["k", 1, "{a,b}", None, {"t": "v", "k": "dict", "v": {"a": 1}}, self.g_field(scope, alias_ok=False)])
                base = self.g_field(scope, alias_ok=False) if self.p(0.6) else j
                return {"t": "meth", "x": base, "m": m, "a": [arg]}
            return j
        if c == "interval":
            kw = {self.ch(["days", "hours", "years", "months", "weeks", "quarters", "seconds", "microseconds"]):
                  self.ch([1, 2, 10, -3])}
            if self.p(0.3):
                kw["minutes"] = 5
            iv = {"t": "new", "c": "Interval", "kw": kw}
            return {"t": "bin", "op": self.ch(["add", "sub"]), "l": self.g_field(scope, alias_ok=False), "r": iv}
        if c == "subq":
            q = self.query_ref(setop_ok=False)
            if q is None or self.p(0.2 if self.k["autoalias"] else 0.5):
                q = self.g_query(d - 1, aliased=self.p(0.3))
            return q
        if c == "extract":
            return {"t": "new", "c": "fn.Extract", "a": [{"t": "enum", "c": "DatePart", "v": self.ch(["year", "day", "hour"])},
                                                        self.g_field(scope, alias_ok=False)]}
        if c == "crit":
            return self.g_crit(d - 1, scope)
        if c == "aliased":
            return {"t": "meth", "x": self.g_expr(d - 1, scope), "m": "as_", "a": [self.new_alias()]}
        if c == "bracket":
            return {"t": "new", "c": "Bracket", "a": [self.g_expr(d - 1, scope)]}
        if c == "attz":
            return {"t": "new", "c": "AtTimezone", "a": [self.g_field(scope, alias_ok=False), "US/Eastern"]}
        if c == "custom":
            return {"t": "new", "c": "Function", "a": [self.ch(["MYFN", "date_trunc"]), self.g_expr(d - 1, scope),
                                                      self.g_pyval(True)]}
        if c == "now":
            return {"t": "new", "c": self.ch(["fn.Now", "fn.CurTimestamp", "fn.CurDate", "fn.UtcTimestamp"])}
        return self.g_field(scope)

    def g_rare(self, d, scope=None):
        """Seldom-used corners of the term API (each one a code path no other generator branch reaches)."""
        x = lambda: self.g_expr(d - 1, scope)  # noqa: E731
        f = lambda: self.g_field(scope, alias_ok=False)  # noqa: E731
        c = self.ch(["pctl", "convert", "signed", "tsadd", "insert", "regexm", "curtime", "typelen", "customfn",
                     "schemafn", "not_deleg", "not_attr", "values", "any", "wrapenum", "wrapterm", "method_cmp"])
        if c == "pctl":
            return {"t": "new", "c": "fn.ApproximatePercentile", "a": [f(), self.ch([0.5, 0.9, "0.25"])]}
        if c == "convert":
            return {"t": "new", "c": "fn.Convert", "a": [x(), {"t": "enum", "c": "Order", "v": "asc"}]}
        if c == "signed":
            return {"t": "new", "c": self.ch(["fn.Signed", "fn.Unsigned"]), "a": [x()]}
        if c == "tsadd":
            return {"t": "new", "c": "fn.TimestampAdd", "a": [self.ch(["day", "hour"]), self.ch([1, 7]), f()]}
        if c == "insert":
            return {"t": "new", "c": "fn.Insert", "a": [x(), 1, 2, self.ch(["zz", "q"])]}
        if c == "regexm":
            a = [f(), "^a"] + (["g"] if self.p(0.5) else [])
            return {"t": "new", "c": "fn.RegexpMatches", "a": a}
        if c == "curtime":
            return {"t": "new", "c": "fn.CurTime"}
        if c == "typelen":
            return {"t": "new", "c": "fn.Cast", "a": [x(), {"t": "meth", "x": {"t": "const", "name": self.ch(["SqlTypes.VARCHAR", "SqlTypes.CHAR"])},
                                                      "m": "__call__", "a": [self.ch([10, 255])]}]}
        if c == "customfn":
            if self.p(0.3):
                return {"t": "meth", "x": {"t": "new", "c": "CustomFunction", "a": ["NOARGS"]}, "m": "__call__",
                        "kw": {"alias": self.new_alias()}}
            return {"t": "meth", "x": {"t": "new", "c": "CustomFunction", "a": ["MYDIFF", ["a", "b"]]}, "m": "__call__",
                    "a": [x(), self.g_pyval(True)]}
        if c == "schemafn":
            return {"t": "new", "c": "Function", "a": ["fx", x()], "kw": {"schema": {"t": "schema", "name": "s"}}}
        if c == "not_deleg":
            # methods of the wrapped class reached through Not.__getattr__ (re-wrapped in Not)
            k = self.ch(["filter", "over", "when"])
            if k == "filter":
                return {"t": "meth", "x": {"t": "un", "op": "not", "x": {"t": "new", "c": self.ch(AGG), "a": [f()]}},
                        "m": "filter", "a": [self.g_crit(0, scope)]}
            if k == "over":
                return {"t": "meth", "x": {"t": "un", "op": "not", "x": self.g_analytic(d, scope, bare=True)},
                        "m": "over", "a": [f()]}
            return {"t": "meth", "x": {"t": "un", "op": "not", "x": self.g_case(d, scope, nwhen=1)}, "m": "when",
                    "a": [self.g_crit(0, scope), self.ch([1, "t"])]}
        if c == "not_attr":
            # a plain attribute of the wrapped term read through Not.__getattr__, then used again
            return {"t": "new", "c": "Field", "a": [{"t": "attr", "x": {"t": "un", "op": "not", "x": f()}, "name": "name"}]}
        if c == "values":
            return {"t": "new", "c": "Values", "a": [self.ch(COLS) if self.p(0.5) else f()]}
        if c == "any":
            return {"t": "meth", "x": {"t": "reg", "c": "Criterion"}, "m": self.ch(["any", "all"]),
                    "a": [[self.g_crit(0, scope) for _ in range(self.rng.randint(1, 3))]]}
        if c == "wrapenum":
            return {"t": "new", "c": "ValueWrapper", "a": [{"t": "enum", "c": self.ch(["Order", "DatePart"]), "v": self.ch(["asc"]) }]} \
                if self.p(0.5) else {"t": "new", "c": "ValueWrapper", "a": [{"t": "enum", "c": "DatePart", "v": "year"}]}
        if c == "wrapterm":
            return {"t": "new", "c": "ValueWrapper", "a": [x()]}
        return {"t": "meth", "x": x(), "m": self.ch(["eq", "ne", "gt", "gte", "lt", "lte"]), "a": [self.g_pyval(True)]}

    def g_case(self, d, scope=None, nwhen=None):
        s = {"t": "new", "c": "Case"}
        if self.p(0.2):
            s["kw"] = {"alias": self.new_alias()}
        n = self.rng.randint(1, 3) if nwhen is None else nwhen
        for _ in range(n):
            s = {"t": "meth", "x": s, "m": "when",
                 "a": [self.g_crit(d - 1, scope), self.g_expr(d - 1, scope, term_only=False)]}
        if self.p(0.5):
            s = {"t": "meth", "x": s, "m": "else_", "a": [self.g_expr(d - 1, scope, term_only=False)]}
        return s

    def g_edge(self):
        if self.p(0.3):
            return {"t": "const", "name": "CURRENT_ROW"}
        c = self.ch(["Preceding", "Following"])
        return {"t": "new", "c": c, "a": [self.ch([1, 5])] if self.p(0.7) else []}

    def g_analytic(self, d, scope=None, bare=False):
        c = self.wch([("plain", 2), ("arg", 2), ("frame", 4)])
        if c == "plain":
            s = {"t": "new", "c": self.ch(AN_PLAIN)}
        elif c == "arg":
            n = self.ch(AN_ARG)
            a = [self.ch([2, 4])] if n == "an.NTile" else [self.g_field(scope, alias_ok=False)]
            if n in ("an.Lag", "an.Lead") and self.p(0.5):
                a += [1, 0]
            s = {"t": "new", "c": n, "a": a}
        else:
            n = self.ch(AN_FRAME)
            s = {"t": "new", "c": n, "a": [self.g_field(scope, alias_ok=False)]}
        if self.p(0.2):
            s.setdefault("kw", {})["alias"] = self.new_alias()
        if bare:
            return s
        if self.p(0.7):
            s = {"t": "meth", "x": s, "m": "over", "a": [self.g_field(scope, alias_ok=False)
                                                          for _ in range(self.rng.randint(0, 2))]}
        if self.p(0.6):
            m = {"t": "meth", "x": s, "m": "orderby", "a": [self.g_field(scope, alias_ok=False)]}
            if self.p(0.4):
                m["kw"] = {"order": {"t": "enum", "c": "Order", "v": self.ch(["asc", "desc"])}}
            s = m
        if c == "frame" and self.p(0.4):
            a = [self.g_edge()]
            if self.p(0.5):
                a.append(self.g_edge())
            s = {"t": "meth", "x": s, "m": self.ch(["rows", "range"]), "a": a}
        return s

    def g_crit(self, d, scope=None):
        if self.p(self.k["p_ref"] * 0.6):
            r = self.term_ref(crit=True)
            if r is not None:
                return r
        if d >= 1 and self.p(0.08):
            # an aliased criterion (criteria are selectable terms too)
            return {"t": "meth", "x": self.g_crit(d - 1, scope), "m": "as_", "a": [self.new_alias()]}
        if d <= 0:
            c = self.wch([("cmp", 6), ("isnull", 1), ("like", 1), ("isin", 1.5), ("between", 1)])
        else:
            c = self.wch([("cmp", 4), ("bool", 4), ("not", 1.2), ("isin", 1.5), ("between", 1), ("isnull", 1),
                          ("like", 1), ("bitand", 0.3), ("isin_q", 0.8), ("tuplecmp", 0.3), ("all", 0.2),
                          ("fncrit", 0.3)])
        if c == "cmp":
            op = self.ch(["eq", "ne", "gt", "ge", "lt", "le"])
            l = self.g_expr(max(d - 1, 0), scope)
            r = self.g_expr(max(d - 1, 0), scope) if self.p(0.45) else self.g_pyval()
            return {"t": "bin", "op": op, "l": l, "r": r}
        if c == "bool":
            return {"t": "bin", "op": self.ch(["and", "and", "or", "or", "xor"]),
                    "l": self.g_crit(d - 1, scope), "r": self.g_crit(d - 1, scope)}
        if c == "not":
            x = self.g_crit(d - 1, scope)
            if self.p(0.3):
                return {"t": "meth", "x": x, "m": "negate"}
            return {"t": "un", "op": "not", "x": x}
        if c == "isin":
            vals = [self.g_pyval(simple=True) for _ in range(self.rng.randint(1, 4))]
            vals = [v for v in vals if not isinstance(v, list)]
            return {"t": "meth", "x": self.g_field(scope, alias_ok=False), "m": self.ch(["isin", "isin", "notin"]),
                    "a": [vals]}
        if c == "isin_q":
            q = self.query_ref(setop_ok=False)
            if q is None or self.p(0.5):
                q = self.g_query(d - 1)
            return {"t": "meth", "x": self.g_field(scope, alias_ok=False), "m": self.ch(["isin", "notin"]), "a": [q]}
        if c == "between":
            if self.p(0.3):
                return {"t": "bin", "op": "getitem", "l": self.g_field(scope, alias_ok=False),
                        "r": {"t": "slice", "a": 1, "b": 10}}
            return {"t": "meth", "x": self.g_expr(0, scope), "m": "between", "a": [self.g_pyval(True), self.g_pyval(True)]}
        if c == "isnull":
            return {"t": "meth", "x": self.g_expr(0, scope), "m": self.ch(["isnull", "notnull"])}
        if c == "like":
            return {"t": "meth", "x": self.g_field(scope, alias_ok=False),
                    "m": self.ch(["like", "not_like", "ilike", "not_ilike", "rlike", "regex", "glob", "bin_regex"]),
                    "a": [self.ch(["a%", "%b_", "^x"])]}
        if c == "bitand":
            return {"t": "bin", "op": "eq", "l": {"t": "meth", "x": self.g_field(scope, alias_ok=False),
                                               "m": "bitwiseand", "a": [self.ch([1, 4])]}, "r": self.ch([0, 1])}
        if c == "tuplecmp":
            return {"t": "meth", "x": {"t": "new", "c": "Tuple", "a": [self.g_field(scope, alias_ok=False),
                                                                    self.g_field(scope, alias_ok=False)]},
                    "m": "isin", "a": [[{"t": "v", "k": "tuple", "v": [1, 2]}, {"t": "v", "k": "tuple", "v": [3, 4]}]]}
        if c == "all":
            return {"t": "bin", "op": "gt", "l": self.g_field(scope, alias_ok=False),
                    "r": {"t": "meth", "x": self.g_query(0), "m": "all_"}}
        if c == "fncrit":
            return {"t": "bin", "op": "gt", "l": {"t": "new", "c": self.ch(AGG), "a": [self.g_field(scope, alias_ok=False)]},
                    "r": self.ch([0, 5])}
        return {"t": "bin", "op": "eq", "l": self.g_field(scope), "r": 1}

    # ------------------------------------------------------------------ inline queries
    def g_query(self, d, aliased=False, cls=None, nsel=None):
        cls = cls or self.ch(self.k["qcls"])
        tb = self.g_table(allow_ref=self.p(0.5))
        scope = [tb]
        q = {"t": "meth", "x": {"t": "cls", "name": cls}, "m": "from_", "a": [tb]}
        n = nsel or self.rng.randint(1, 2)
        q = {"t": "meth", "x": q, "m": "select", "a": [self.g_field(scope) if self.p(0.8) else self.g_expr(max(d, 0), scope)
                                                       for _ in range(n)]}
        if self.p(0.5):
            q = {"t": "meth", "x": q, "m": "where", "a": [self.g_crit(max(d, 0), scope)]}
        if self.p(0.15):
            q = {"t": "meth", "x": q, "m": "limit", "a": [self.ch([1, 10])]}
        if aliased:
            q = {"t": "meth", "x": q, "m": "as_", "a": [self.new_alias()]}
        return q

    # ------------------------------------------------------------------ ops
    def scope_of(self, i):
        return self.meta.get(i, {}).get("scope", [])

    def emit(self, op, scope=None, mutable_root=None):
        self.program.append(op)
        i = len(self.program) - 1
        m = {}
        if scope is not None:
            m["scope"] = scope
        self.meta[i] = m
        return i

    def g_new_op(self):
        """An op creating a new root object."""
        f = self.k["focus"]
        w = [("query", 5), ("table", 1.2), ("term", 2.5), ("crit", 1.5), ("case", 0.8), ("agg", 0.8),
             ("analytic", 0.8), ("create", 0.6), ("drop", 0.25), ("load", 0.2), ("joinobj", 0.25),
             ("schema", 0.15), ("tuple", 0.3), ("contains", 0.4), ("field", 1.0)]
        if f == "term":
            w = [(n, x * (3 if n in ("term", "crit", "case", "agg", "analytic", "contains", "tuple") else 0.5)) for n, x in w]
        elif f == "ddl":
            w = [(n, x * (6 if n in ("create", "drop", "load") else 0.6)) for n, x in w]
        elif f in ("qb", "setop"):
            w = [(n, x * (3 if n == "query" else 0.6)) for n, x in w]
        c = self.wch(w)
        d = self.k["depth"]
        scope = None
        if c == "query":
            x, scope = self.g_entry()
        elif c == "table":
            x = dict(self.ch(TABLE_POOL))
            x["fresh"] = True
            if self.p(0.4):
                x["qc"] = self.ch(self.k["qcls"])  # Table.select/insert/update start statements of that dialect
            if self.p(0.2):
                x["for"] = {"t": "meth", "x": {"t": "const", "name": "SYSTEM_TIME"}, "m": "as_of", "a": ["2020-01-01"]}
            r = self.rng.random()
            if r < 0.08:    # Schema.__getattr__ / Database.__getattr__
                x = {"t": "attr", "x": {"t": "schema", "name": "s"}, "name": self.ch(["a", "t9"])} if self.p(0.5) else \
                    {"t": "attr", "x": {"t": "attr", "x": {"t": "schema", "name": "db", "db": True}, "name": "s"}, "name": "a"}
            elif r < 0.16:  # Query.Table / Query.Tables remember the query class
                qc = {"t": "cls", "name": self.ch(self.k["qcls"])}
                x = {"t": "meth", "x": qc, "m": "Table", "a": [self.ch(["a", "t8"])]} if self.p(0.5) else \
                    {"t": "bin", "op": "getitem", "l": {"t": "meth", "x": qc, "m": "Tables",
                                                         "a": ["a", {"t": "v", "k": "tuple", "v": ["b", "b1"]}]},
                     "r": self.ch([0, 1])}
        elif c == "term":
            x = self.g_expr(d)
        elif c == "field":
            # a Field the caller keeps and passes to several statements (often without a table)
            x = {"t": "field", "name": self.ch(COLS), "tbl": None if self.p(0.5) else self.g_table()}
            if self.p(0.15):
                x["alias"] = self.new_alias()
        elif c == "crit":
            x = self.g_crit(d)
        elif c == "case":
            x = self.g_case(d, nwhen=self.rng.randint(0, 2))
        elif c == "agg":
            x = {"t": "new", "c": self.ch(AGG), "a": [self.g_field()]}
        elif c == "analytic":
            x = self.g_analytic(d, bare=self.p(0.5))
        elif c == "create":
            x = {"t": "meth", "x": {"t": "cls", "name": self.ch(self.k["qcls"])}, "m": "create_table",
                 "a": [self.ch(["t_new", {"t": "table", "name": "t2", "schema": "s", "fresh": True}])]}
            if self.p(0.12):
                x = {"t": "new", "c": "CreateQueryBuilder"}  # no table yet: renders the empty string
        elif c == "drop":
            x = {"t": "meth", "x": {"t": "cls", "name": self.ch(self.k["qcls"])}, "m": "drop_table",
                 "a": [self.ch(["t_old", {"t": "table", "name": "t3", "fresh": True}])]}
            if self.p(0.12):
                x = {"t": "new", "c": "DropQueryBuilder"}
        elif c == "load":
            x = {"t": "meth", "x": {"t": "cls", "name": "MySQLQuery"}, "m": "load", "a": ["/tmp/f.csv"]}
        elif c == "joinobj":
            tb = self.g_table(join_pos=True, allow_ref=False)
            k2 = self.ch(["JoinOn", "JoinUsing", "Join"])
            how = {"t": "enum", "c": "JoinType", "v": self.ch(JOINTYPES)}
            if k2 == "JoinOn":
                x = {"t": "new", "c": "JoinOn", "a": [tb, how, self.g_crit(1, [tb, self.g_table()])]}
            elif k2 == "JoinUsing":
                x = {"t": "new", "c": "JoinUsing", "a": [tb, how, [{"t": "field", "name": "id", "tbl": None}]]}
            else:
                x = {"t": "new", "c": "Join", "a": [tb, how]}
        elif c == "schema":
            x = {"t": "schema", "name": "s", "parent": {"t": "schema", "name": "db", "db": True} if self.p(0.5) else None}
        elif c == "tuple":
            x = {"t": "new", "c": self.ch(["Tuple", "Array"]), "a": [self.g_expr(1, term_only=False) for _ in range(2)]}
        else:
            r = self.rng.random()
            if r < 0.7:
                x = {"t": "meth", "x": self.g_field(alias_ok=False), "m": "isin", "a": [[1, 2, 3]]}
            elif r < 0.85:
                x = {"t": "meth", "x": self.g_field(alias_ok=False), "m": "bitwiseand", "a": [self.ch([1, 4])]}
            else:
                x = {"t": "new", "c": "NestedCriterion",
                     "a": [{"t": "enum", "c": "Equality", "v": "eq"}, {"t": "enum", "c": "Boolean", "v": "and_"},
                           self.g_field(alias_ok=False), self.g_field(alias_ok=False), self.g_field(alias_ok=False)]}
        if isinstance(x, dict) and x.get("t") == "var":
            # a root must be a NEW object: a bare reference would make two heap slots one object, which the
            # slot-wise reference model (and the alias_fx replay) does not describe
            x = {"t": "bin", "op": "add", "l": x, "r": 1} if c == "term" else {"t": "un", "op": "not", "x": x}
        return self.emit({"op": "new", "x": x}, scope=scope)

    def g_statement(self):
        """A complete statement of a random kind as one inline chain (population for render histories)."""
        cls = self.ch(self.k["qcls"])
        C = {"t": "cls", "name": cls}
        d = self.k["depth"]
        tb = self.g_table(allow_ref=self.p(0.3))
        tb2 = self.ch([t for t in TABLE_POOL if t["name"] != tb.get("name", "?")] or TABLE_POOL)
        scope = [tb]

        mut = {"immutable": False} if (self.k["mutable"] and self.p(0.6)) else {}

        def m(x, name, *a, **kw):
            n = {"t": "meth", "x": x, "m": name, "a": list(a)}
            if x is C and mut and name in ("from_", "update", "into"):
                kw = dict(kw, **mut)  # mutable-mode builder: every later call of the chain works in place
            if kw:
                n["kw"] = kw
            return n

        def join(x):
            nonlocal scope
            item = dict(tb2)
            item["fresh"] = True
            crit = {"t": "bin", "op": "eq", "l": self.g_field([tb], alias_ok=False), "r": self.g_field([tb2], alias_ok=False)}
            scope = scope + [tb2]
            how = {"t": "enum", "c": "JoinType", "v": self.ch(JOINTYPES)} if self.p(0.4) else None
            return {"t": "join", "x": x, "item": item, "how": how, "fin": "on", "a": [crit]}

        kind = self.wch([("select", 5), ("update", 3), ("insert", 3), ("delete", 1.5), ("insert_select", 1),
                         ("setop", 1), ("create", 0.8)])
        if kind == "select":
            x = m(C, "from_", tb)
            if self.p(0.5):
                x = join(x)
            sels = [self.sel_item_plain(scope) for _ in range(self.rng.randint(1, 3))]
            # the common pattern "group / order by a selected, aliased term": the SAME term spec (same alias)
            # appears in the select list and in GROUP BY / ORDER BY
            shared = None
            if self.p(0.45):
                base = self.g_expr(1, scope) if self.p(0.5) else self.g_field(scope, alias_ok=False)
                shared = {"t": "meth", "x": base, "m": "as_", "a": [self.ch(ALIASES)]}
                sels.insert(self.rng.randrange(len(sels) + 1), shared)
            x = m(x, "select", *sels)
            if self.p(0.6):
                x = m(x, "where", self.g_crit(d, scope))
            if self.p(0.3) or (shared is not None and self.p(0.6)):
                x = m(x, "groupby", shared if (shared is not None and self.p(0.8)) else self.g_field(scope, alias_ok=False))
                if self.p(0.5):
                    x = m(x, "having", self.g_crit(1, scope))
            if self.p(0.4):
                x = m(x, "orderby", shared if (shared is not None and self.p(0.5)) else self.g_field(scope, alias_ok=False))
            if self.p(0.3):
                x = m(x, "limit", self.ch([1, 10]))
            if self.p(0.2):
                x = m(x, "offset", self.ch([0, 5]))
            if self.p(0.35):
                names = ["a", "b", "c", "d1", "tbl_e"]
                self.rng.shuffle(names)
                x = m(x, "for_update", of={"t": "v", "k": "tuple", "v": names[: self.rng.randint(0, 4)]})
            if self.p(0.2):
                x = m(x, "distinct")
            if self.p(0.2):
                x = m(x, "force_index", "ix1")
        elif kind == "update":
            x = m(C, "update", tb)
            if self.p(0.6):
                x = join(x)
            for _ in range(self.rng.randint(1, 2)):
                x = m(x, "set", self.ch(COLS), self.g_pyval() if self.p(0.6) else self.g_expr(1, scope))
            if self.p(0.3):
                x = m(x, "from_", self.ch(TABLE_POOL))
            if self.p(0.6):
                x = m(x, "where", self.g_crit(d, scope))
            if self.p(0.2):
                x = m(x, "limit", 5)
            if cls == "PostgreSQLQuery" and self.p(0.4):
                x = m(x, "returning", self.ch(COLS))
        elif kind == "insert":
            x = m(C, "into", tb)
            if self.p(0.6):
                x = m(x, "columns", "x", "y")
            for _ in range(self.rng.randint(1, 2)):
                x = m(x, "insert", self.g_pyval(), self.g_pyval(simple=True))
            if self.p(0.5):
                x = m(x, "on_conflict", *(["x"] if self.p(0.8) else []))
                if self.p(0.6):
                    x = m(x, "do_update", "y", *([self.g_pyval(True)] if self.p(0.6) else []))
                else:
                    x = m(x, "do_nothing")
            if cls == "PostgreSQLQuery" and self.p(0.4):
                x = m(x, "returning", self.ch(["*", "x"]))
        elif kind == "delete":
            x = m(m(C, "from_", tb), "delete")
            if self.p(0.7):
                x = m(x, "where", self.g_crit(d, scope))
            if cls == "PostgreSQLQuery" and self.p(0.4):
                x = m(x, "returning", self.ch(["*", "x"]))
        elif kind == "insert_select":
            x = m(m(m(C, "into", tb), "from_", tb2), "select", self.g_field([tb2]), self.g_field([tb2]))
            if self.p(0.3):
                x = m(x, "columns", "x", "y")
        elif kind == "setop":
            x = m(self.g_query(1, cls=cls, nsel=1), self.ch(SETOPS), self.g_query(1, cls=cls, nsel=1))
            if self.p(0.4):
                x = m(x, "orderby", self.ch(COLS))
            if self.p(0.3):
                x = m(x, "limit", 3)
            scope = []
        else:
            x = m(m(C, "create_table", "t_new"), "columns", {"t": "v", "k": "tuple", "v": ["id", "INT"]},
                  {"t": "new", "c": "Column", "a": ["name", "VARCHAR(10)"], "kw": {"default": self.g_pyval(True)}})
            if self.p(0.5):
                x = m(x, "unique", "name")
            if self.p(0.5):
                x = m(x, "primary_key", "id")
            scope = []
        return x, scope

    def sel_item_plain(self, scope):
        c = self.wch([("field", 6), ("expr", 2.5), ("agg", 1), ("val", 1), ("tstar", 0.6), ("case", 0.5), ("an", 0.5)])
        if c == "field":
            return self.g_field(scope)
        if c == "expr":
            return self.g_expr(self.k["depth"], scope)
        if c == "agg":
            return {"t": "new", "c": self.ch(AGG), "a": [self.g_field(scope, alias_ok=False)]}
        if c == "val":
            return self.g_pyval()
        if c == "tstar":
            return {"t": "star", "tbl": self.scope_table(scope)}
        if c == "case":
            return self.g_case(self.k["depth"], scope)
        return self.g_analytic(1, scope)

    def g_entry(self):
        """Query entry point spec + its scope."""
        if self.k.get("p_stmt") and self.p(self.k["p_stmt"]):
            return self.g_statement()
        cls = self.ch(self.k["qcls"])
        C = {"t": "cls", "name": cls}
        kw = {}
        if self.k["mutable"] and self.p(0.7):
            kw = {"immutable": False}
        c = self.wch([("from", 6), ("into", 2), ("update", 2), ("select", 0.5), ("with", 0.7), ("tselect", 0.6),
                      ("delete", 1.2), ("tinsert", 0.4), ("tupdate", 0.4), ("bare", 0.3)])
        tb = self.g_table()
        scope = [tb]
        if c == "from":
            src = tb
            if self.p(0.12):
                src = self.ch(["a", "b"])
                scope = [{"t": "table", "name": src}]
            elif self.p(0.12):
                src = self.g_query(1, aliased=True)
                scope = []
            x = {"t": "meth", "x": C, "m": "from_", "a": [src], "kw": kw}
        elif c == "into":
            x = {"t": "meth", "x": C, "m": "into", "a": [tb], "kw": kw}
        elif c == "update":
            x = {"t": "meth", "x": C, "m": "update", "a": [tb], "kw": kw}
        elif c == "select":
            x = {"t": "meth", "x": C, "m": "select", "a": [self.g_pyval(True), self.g_expr(1, [])], "kw": kw}
            scope = []
        elif c == "with":
            x = {"t": "meth", "x": C, "m": "with_", "a": [self.g_query(1), "cte1"], "kw": kw}
            x = {"t": "meth", "x": x, "m": "from_", "a": [{"t": "new", "c": "AliasedQuery", "a": ["cte1"]}]}
            scope = [{"t": "new", "c": "AliasedQuery", "a": ["cte1"]}]
        elif c == "tselect":
            x = {"t": "meth", "x": tb, "m": "select", "a": [self.ch(COLS)]}
        elif c == "delete":
            x = {"t": "meth", "x": {"t": "meth", "x": C, "m": "from_", "a": [tb], "kw": kw}, "m": "delete"}
        elif c == "tinsert":
            x = {"t": "meth", "x": tb, "m": "insert", "a": [1, "a"]}
        elif c == "tupdate":
            x = {"t": "meth", "x": tb, "m": "update"}
        else:
            x = {"t": "meth", "x": C, "m": "_builder", "kw": kw}
            scope = []
        return x, scope

    def pick_receiver(self):
        """Any live object (not just the newest); mutable-mode chains continue at their last alias."""
        h = self.env.heap
        latest = {}
        cands = []
        for i in range(len(h)):
            v = h[i]
            if isinstance(v, MutableAlias):
                root = v.root
                while isinstance(h[root], MutableAlias):
                    root = h[root].root
                latest[root] = i
        for i in range(len(h)):
            v = h[i]
            if not is_object_slot(v):
                continue
            kd = self.kind(v)
            if kd in ("other", "empty", "interval", "column"):
                continue
            if i in latest:
                continue  # superseded by a later alias slot
            cands.append(i)
        for root, i in sorted(latest.items()):
            cands.append(i)
        if not cands:
            return None
        f = self.k["focus"]
        if f != "any" and self.p(0.7):
            def fk(i):
                v = self.deref(i)
                kd = self.kind(v)
                if f == "qb":
                    return kd == "qb"
                if f == "setop":
                    return kd in ("setop", "qb")
                if f == "term":
                    return kd in ("term", "table")
                if f == "ddl":
                    return kd in ("create", "drop", "load")
                return True
            c2 = [i for i in cands if fk(i)]
            if c2:
                cands = c2
        # bias toward recent objects a little, but keep ancestors reachable
        if self.p(0.4):
            return cands[-1 - min(self.rng.randrange(3), len(cands) - 1)]
        return self.ch(cands)

    def deref(self, i):
        v = self.env.heap[i]
        while isinstance(v, MutableAlias):
            v = self.env.heap[v.root]
        return v

    def next_op(self) -> int:
        """Generate one op, append it to the program, return its index (caller executes it)."""
        n_obj = len(self.slots(lambda v, i: True))
        if n_obj == 0 or self.p(self.k["p_new"] if n_obj >= 2 else 0.8):
            return self.g_new_op()
        # repeat the previous method on the previous result or on the same ancestor (branching)
        if self.last is not None and self.p(self.k["p_repeat"]):
            ri, m, res = self.last
            target = ri if self.p(0.6) else res
            if target is not None and target < len(self.env.heap) and is_object_slot(self.env.heap[target]):
                v = self.env.heap[target]
                if not self.is_mutable(v) and m in self.methods_of(v):
                    i = self.g_call(target, m)
                    if i is not None:
                        return i
        for _ in range(8):
            ri = self.pick_receiver()
            if ri is None:
                break
            v = self.deref(ri)
            ms = self.methods_of(v)
            if not ms:
                continue
            m = self.pick_method(v, ms)
            i = self.g_call(ri, m)
            if i is not None:
                return i
        return self.g_new_op()

    def methods_of(self, v):
        ms = list(self.L.builder_methods(type(v)))
        kd = self.kind(v)
        if kd == "qb":
            ms += ["__add__", "__mul__", "__sub__", "__getitem__"]
        if kd == "setop":
            ms += ["__add__", "__mul__", "__sub__"]
        if kd == "table":
            ms += ["select", "insert", "update"]
        if kd == "qb" and self.is_mutable(v):
            # a mutable-mode builder stays a heap leaf: set operations would embed it in a new object
            ms = [m for m in ms if m not in SETOPS and m not in ("__add__", "__mul__", "__sub__")]
        return ms

    METHOD_W = {
        "select": 3, "where": 3, "join": 3, "groupby": 2, "orderby": 2, "having": 1.5, "from_": 1.5, "set": 2,
        "insert": 2, "columns": 1.5, "on_conflict": 1.2, "do_update": 1.2, "force_index": 1.5, "use_index": 1.2,
        "rollup": 1.5, "with_": 1, "union": 1, "replace_table": 1.2, "as_": 0.8, "when": 3, "filter": 3,
        "over": 3, "distinct_on": 2.5, "returning": 2.5, "modifier": 3, "for_update": 1.2, "unique": 2,
        "period_for": 1.5, "for_": 2.5, "for_portion": 1.5, "delete": 0.3, "update": 0.3, "into": 0.5, "__getitem__": 0.5, "__add__": 0.3,
        "__mul__": 0.3, "__sub__": 0.3, "prewhere": 0.8, "with_totals": 0.4, "distinct": 0.8, "do_nothing": 0.6,
        "top": 1.5, "fetch_next": 1.2, "limit": 1, "offset": 1, "slice": 0.8, "replace": 0.8,
    }

    INSERT_ONLY = {"columns", "insert", "replace", "on_conflict", "do_update", "do_nothing"}
    UPDATE_ONLY = {"set"}
    SELECT_ISH = {"groupby", "having", "rollup", "distinct", "offset", "slice", "union", "union_all", "intersect",
                  "except_of", "minus", "for_update", "force_index", "use_index", "with_totals", "prewhere",
                  "distinct_on", "top", "fetch_next", "modifier", "__add__", "__mul__", "__sub__", "__getitem__"}
    ONESHOT = {"into", "update", "delete", "create_table", "drop_table", "load"}

    def stmt_kind(self, v):
        d = lib.state(v)
        if d.get("_insert_table") is not None:
            return "insert"
        if d.get("_update_table") is not None:
            return "update"
        if d.get("_delete_from"):
            return "delete"
        return "select"

    def pick_method(self, v, ms):
        kd = self.kind(v)
        sk = self.stmt_kind(v) if kd == "qb" else None
        pairs = []
        for m in ms:
            w = self.METHOD_W.get(m, 1.0)
            if sk is not None:
                if m in self.INSERT_ONLY and sk != "insert":
                    w *= 0.06
                if m in self.UPDATE_ONLY and sk != "update":
                    w *= 0.1
                if m in self.SELECT_ISH and sk not in ("select", "insert"):
                    w *= 0.15
                if m == "returning" and sk == "select":
                    w *= 0.15
                if m in ("select",) and sk in ("update", "delete"):
                    w *= 0.1
            if m in self.ONESHOT:
                w *= 0.5
            pairs.append((m, w))
        return self.wch(pairs)

    # ------------------------------------------------------------------ recipes
    def g_call(self, ri, m):
        v = self.deref(ri)
        kd = self.kind(v)
        f = getattr(self, "r_" + m.strip("_"), None)
        if f is None:
            self.uncovered.add(type(v).__name__ + "." + m)
            return None
        scope = list(self.scope_of(ri))
        res = f(v, kd, ri, scope)
        if res is None:
            return None
        op, scope2 = res
        op.setdefault("op", "call")
        op["r"] = ri
        if op["op"] == "call":
            op.setdefault("m", m)
        i = self.emit(op, scope=scope2 if scope2 is not None else scope)
        self.last = (ri, m, i)
        return i

    def nfrom(self, v):
        d = lib.state(v)
        f = d.get("_from")
        return len(f) if isinstance(f, list) else 0

    def fields(self, scope, lo=1, hi=3, alias_ok=True):
        return [self.g_field(scope, alias_ok=alias_ok) for _ in range(self.rng.randint(lo, hi))]

    # -- QueryBuilder ---------------------------------------------------------------
    def r_from(self, v, kd, ri, scope):
        c = self.wch([("table", 6), ("str", 1), ("subq_aliased", 1.5), ("subq_inline", 1),
                      ("heapq", 5 if self.k["autoalias"] else 1.5), ("cte", 0.5)])
        if c == "table":
            tb = self.g_table()
            return {"a": [tb]}, scope + [tb]
        if c == "str":
            n = self.ch(["a", "b", "c"])
            return {"a": [n]}, scope + [{"t": "table", "name": n}]
        if c == "subq_aliased":
            return {"a": [self.g_query(1, aliased=True)]}, scope
        if c == "subq_inline":
            return {"a": [self.g_query(1, aliased=False)]}, scope  # private object: auto-alias is invisible
        if c == "heapq":
            q = self.query_ref(need_alias=True)
            if q is None:
                return None
            return {"a": [q]}, scope
        return {"a": [{"t": "new", "c": "AliasedQuery", "a": ["cte1"]}]}, scope

    def sel_item(self, v, scope):
        d = self.k["depth"]
        c = self.wch([("field", 6), ("str", 1.5 if self.nfrom(v) else 0), ("star", 0.7 if self.nfrom(v) else 0),
                      ("tstar", 1), ("expr", 2.5), ("agg", 1.5), ("analytic", 0.8), ("val", 0.8), ("subq", 0.5),
                      ("case", 0.6)])
        if c == "field":
            return self.g_field(scope)
        if c == "str":
            return self.ch(COLS)
        if c == "star":
            return "*"
        if c == "tstar":
            return {"t": "star", "tbl": self.scope_table(scope), "via": self.ch(["prop", None])}
        if c == "expr":
            return self.g_expr(d, scope)
        if c == "agg":
            s = {"t": "new", "c": self.ch(AGG), "a": [self.g_field(scope, alias_ok=False)]}
            if self.p(0.4):
                s["kw"] = {"alias": self.new_alias()}
            return s
        if c == "analytic":
            return self.g_analytic(d, scope)
        if c == "val":
            return self.g_pyval()
        if c == "subq":
            q = self.query_ref(setop_ok=False)
            return q if q is not None else self.g_query(1)
        return self.g_case(d, scope)

    def r_select(self, v, kd, ri, scope):
        if kd == "table":
            return {"a": [self.ch(COLS)] + ([self.g_field([self.var(ri)])] if self.p(0.5) else [])}, [self.var(ri)]
        return {"a": [self.sel_item(v, scope) for _ in range(self.rng.randint(1, 3))]}, scope

    def r_where(self, v, kd, ri, scope):
        if self.p(0.04):
            return {"a": [{"t": "new", "c": "EmptyCriterion"}]}, scope
        sc = scope
        if self.p(0.15):
            sc = scope + [self.g_table()]  # reference to a foreign table
        return {"a": [self.g_crit(self.k["depth"], sc)]}, scope

    def r_prewhere(self, v, kd, ri, scope):
        return {"a": [self.g_crit(self.k["depth"], scope)]}, scope

    def r_having(self, v, kd, ri, scope):
        return {"a": [self.g_crit(self.k["depth"], scope)]}, scope

    def r_groupby(self, v, kd, ri, scope):
        items = []
        for _ in range(self.rng.randint(1, 3)):
            c = self.wch([("field", 5), ("str", 1.5 if self.nfrom(v) else 0), ("int", 0.7 if self.nfrom(v) else 0),
                          ("expr", 1.5), ("aliased", 1)])
            if c == "field":
                items.append(self.g_field(scope))
            elif c == "str":
                items.append(self.ch(COLS))
            elif c == "int":
                items.append(self.rng.randint(1, 3))
            elif c == "expr":
                items.append(self.g_expr(1, scope))
            else:
                items.append({"t": "meth", "x": self.g_field(scope, alias_ok=False), "m": "as_", "a": [self.ch(ALIASES)]})
        return {"a": items}, scope

    def r_orderby(self, v, kd, ri, scope):
        if kd == "term":  # AnalyticFunction.orderby
            op = {"a": self.fields(scope, 1, 2, alias_ok=False)}
        elif kd == "setop":
            op = {"a": [self.g_field(scope) if self.p(0.7) else self.ch(COLS) for _ in range(self.rng.randint(1, 2))]}
        else:
            items = []
            for _ in range(self.rng.randint(1, 3)):
                c = self.wch([("field", 5), ("str", 1.5 if self.nfrom(v) else 0), ("expr", 1.5), ("val", 0.3)])
                items.append(self.g_field(scope) if c == "field" else self.ch(COLS) if c == "str"
                             else self.g_expr(1, scope) if c == "expr" else self.ch([1, 2]))
            op = {"a": items}
        if self.p(0.5):
            op["kw"] = {"order": {"t": "enum", "c": "Order", "v": self.ch(["asc", "desc"])}}
        return op, scope

    def r_rollup(self, v, kd, ri, scope):
        a = []
        for _ in range(self.rng.randint(0, 2)):
            if self.p(0.3):
                a.append([self.g_field(scope, alias_ok=False), self.g_field(scope, alias_ok=False)])
            else:
                a.append(self.g_field(scope, alias_ok=False))
        op = {"a": a}
        if self.p(0.3):
            op["kw"] = {"vendor": "mysql"}
        return op, scope

    def r_with_totals(self, v, kd, ri, scope):
        return {}, scope

    def r_distinct(self, v, kd, ri, scope):
        return {}, scope

    def r_delete(self, v, kd, ri, scope):
        return {}, scope

    def r_do_nothing(self, v, kd, ri, scope):
        return {}, scope

    def r_join(self, v, kd, ri, scope):
        c = self.wch([("table", 6), ("subq", 1.5), ("heapq", 6 if self.k["autoalias"] else 1), ("cte", 0.4), ("setop", 0.3)])
        if c == "table":
            item = self.g_table(join_pos=True)
            if self.k["autoalias"] and self.p(0.35):
                # self-join BY REFERENCE: the very Table object that already sits in the receiver's FROM list (the one
                # case in which the library writes an alias into a table; a rejected join must not leave it behind)
                fr = [x for x in (lib.state(v).get("_from") or []) if isinstance(x, self.L.queries.Table)]
                own = self.slots(lambda hv, i: any(hv is x for x in fr) and self.alias_of(hv) is None)
                if own:
                    item = self.var(self.ch(own))
        elif c == "subq":
            item = self.g_query(1, aliased=self.p(0.6))
        elif c == "heapq":
            item = self.query_ref(need_alias=True, setop_ok=False)
            if item is None:
                return None
        elif c == "cte":
            item = {"t": "new", "c": "AliasedQuery", "a": ["cte1"]}
        else:
            item = {"t": "meth", "x": self.g_query(0, nsel=1), "m": "union", "a": [self.g_query(0, nsel=1)]}
            if self.p(0.6):  # otherwise un-aliased: the library assigns sqN to the set operation
                item = {"t": "meth", "x": item, "m": "as_", "a": [self.new_alias()]}
        if self.p(0.02):
            item = self.ch([42, "a_string"])  # ill-typed: rejected by join() itself
        how = {"t": "enum", "c": "JoinType", "v": self.ch(JOINTYPES)} if self.p(0.6) else None
        fin = self.wch([("on", 6), ("on_field", 1.5 if self.nfrom(v) else 0), ("using", 1.5), ("cross", 1)])
        op = {"op": "join", "item": item, "how": how, "fin": fin}
        if self.p(0.12):
            op["how"] = None
            op["via"] = self.ch(["inner_join", "left_join", "left_outer_join", "right_join", "right_outer_join",
                                 "outer_join", "full_outer_join", "cross_join", "hash_join"])
        # the ON criterion refers to the joined item: an equal table spec (cached, hence a
        # different-but-equal object when the join item is fresh) or the heap object itself
        if isinstance(item, dict) and item.get("t") == "table":
            jt = {k: x for k, x in item.items() if k != "fresh"}
        elif isinstance(item, dict) and item.get("t") == "var":
            jt = item
        else:
            jt = None
        if fin == "on" and self.p(0.25 if self.k["autoalias"] else 0.12):
            # a join that is rejected part-way (criterion names a table that is not available): the receiver and
            # the by-reference argument must come out of the failed call unchanged
            op["a"] = [{"t": "bin", "op": "eq", "l": self.g_field([{"t": "table", "name": "zz_foreign"}], alias_ok=False),
                        "r": self.g_field(scope[:1] or None, alias_ok=False)}]
        elif fin == "on":
            sc = scope + ([jt] if jt is not None else [])
            if jt is not None and scope:
                crit = {"t": "bin", "op": "eq", "l": self.g_field([self.ch(scope)], alias_ok=False),
                        "r": self.g_field([jt], alias_ok=False)}
                if self.p(0.3):
                    crit = {"t": "bin", "op": "and", "l": crit, "r": self.g_crit(1, sc)}
            else:
                crit = self.g_crit(1, sc) if self.p(0.9) else None
            op["a"] = [crit]
            if self.p(0.1):
                op["kw"] = {"collate": "utf8_general_ci"}
        elif fin in ("on_field", "using"):
            op["a"] = [self.ch(COLS) for _ in range(self.rng.randint(0 if self.p(0.1) else 1, 2))]
        else:
            op["a"] = []
        return op, scope + ([jt] if jt is not None else [])

    def r_limit(self, v, kd, ri, scope):
        return {"a": [self.ch([0, 1, 10, 100])]}, scope

    def r_offset(self, v, kd, ri, scope):
        return {"a": [self.ch([0, 5, 20])]}, scope

    def r_slice(self, v, kd, ri, scope):
        return {"a": [{"t": "slice", "a": self.ch([None, 0, 5]), "b": self.ch([None, 10, 1])}]}, scope

    def r_getitem(self, v, kd, ri, scope):
        return {"m": "__getitem__", "a": [{"t": "slice", "a": self.ch([None, 0, 5]), "b": self.ch([None, 10, 1])}]}, scope

    def r_for_update(self, v, kd, ri, scope):
        kw = {}
        if self.p(0.3):
            kw["nowait"] = True
        if self.p(0.3):
            kw["skip_locked"] = True
        if self.p(0.6):
            names = ["a", "b", "c", "d1", "tbl_e"]
            self.rng.shuffle(names)
            kw["of"] = {"t": "v", "k": "tuple", "v": names[: self.rng.randint(0, 4)]}
        return {"kw": kw}, scope

    def _idx(self):
        a = []
        for _ in range(self.rng.randint(1, 3)):
            n = self.ch(["ix1", "ix2", "pk", "ix_x y"])
            a.append(n if self.p(0.6) else {"t": "new", "c": "Index", "a": [n]})
        return a

    def r_force_index(self, v, kd, ri, scope):
        return {"a": self._idx()}, scope

    def r_use_index(self, v, kd, ri, scope):
        return {"a": self._idx()}, scope

    def r_with(self, v, kd, ri, scope):
        q = self.query_ref(setop_ok=False)
        if q is None or self.p(0.6):
            q = self.g_query(1)
        a = [q, self.ch(["cte1", "cte2", "w"])]
        if self.p(0.2):
            a += [{"t": "field", "name": "c1", "tbl": None}]
        return {"m": "with_", "a": a}, scope

    def r_into(self, v, kd, ri, scope):
        if kd == "load":
            return {"a": [self.ch(["t_load", self.g_table()])]}, scope
        tb = self.g_table()
        return {"a": [tb if self.p(0.8) else "t_into"]}, scope

    def r_update(self, v, kd, ri, scope):
        if kd == "table":
            return {"a": []}, [self.var(ri)]
        tb = self.g_table()
        return {"a": [tb if self.p(0.8) else "t_upd"]}, scope + [tb]

    def r_columns(self, v, kd, ri, scope):
        if kd == "create":
            a = []
            for _ in range(self.rng.randint(1, 3)):
                c = self.wch([("str", 2), ("tup", 3), ("col", 3)])
                n = self.ch(["id", "name", "start_d", "end_d", "v"])
                if c == "str":
                    a.append(n)
                elif c == "tup":
                    a.append({"t": "v", "k": "tuple", "v": [n, self.ch(["INT", "VARCHAR(10)", "DATETIME"])]})
                else:
                    kw = {}
                    if self.p(0.5):
                        kw["nullable"] = self.p(0.5)
                    if self.p(0.5):
                        kw["default"] = self.ch([0, "d", {"t": "new", "c": "fn.Now"}])
                    a.append({"t": "new", "c": "Column", "a": [n, self.ch(["INT", "VARCHAR(100)"])], "kw": kw})
            return {"a": a}, scope
        names = [self.ch(COLS) for _ in range(self.rng.randint(1, 3))]
        c = self.wch([("str", 3), ("field", 2), ("list", 1.5), ("tuple", 0.7)])
        if c == "str":
            return {"a": names}, scope
        if c == "field":
            return {"a": [self.g_field(scope, alias_ok=False) for _ in names]}, scope
        if c == "list":
            return {"a": [names]}, scope
        return {"a": [{"t": "v", "k": "tuple", "v": names}]}, scope

    def _row(self, scope):
        # never a list/tuple/query as a positional value: insert(x, ...) with a sequence first treats EVERY argument
        # as a row and iterates it (iterating a Selectable never ends: __getitem__ answers every index)
        row = []
        for k in range(self.rng.randint(1, 3)):
            v = self.g_pyval() if self.p(0.75) else self.g_expr(0, scope)
            if isinstance(v, list) or (isinstance(v, dict) and v.get("t") == "v" and v.get("k") in ("list", "tuple")):
                v = self.g_pyval(simple=True)
                if isinstance(v, list):
                    v = 1
            if k >= 1 and self.p(0.5 if self.k["autoalias"] else 0.06):
                # a scalar sub-query as a value (never first: see above), preferably one of the heap
                q = self.query_ref(setop_ok=False, select_only=True)
                v = q if (q is not None and self.p(0.8)) else self.g_query(0, nsel=1)
            row.append(self._unaliased(v))
        return row

    def _unaliased(self, v):
        """A VALUES item never carries an alias of the caller's, at any depth (aliasing a value to be inserted, or a part
        of it, means nothing - and the classes that render their alias whatever the context says would show it)."""
        if isinstance(v, list):
            return [self._unaliased(x) for x in v]
        if not isinstance(v, dict):
            return v
        if v.get("t") == "var":
            o = self.env.heap[v["i"]]
            if self.kind(o) == "term":
                try:
                    if any(lib.state(n).get("alias") is not None for n in o.nodes_()):
                        return 1
                    # wrappers that do not list their operand among their nodes (Negative, ...): look at the text
                    from . import sqllex
                    sql = o.get_sql(self.L.context.DEFAULT_SQL_CONTEXT)
                    if sqllex.predicate_juxtapositions("SELECT 1 WHERE " + sql, '"', False):
                        return 1
                except Exception:  # noqa: BLE001
                    return 1
            return v
        if v.get("t") == "meth" and v.get("m") == "as_":
            return self._unaliased(v["x"])
        out = {}
        for k, x in v.items():
            if k == "alias":
                continue
            if k == "kw" and isinstance(x, dict):
                x = {kk: self._unaliased(xx) for kk, xx in x.items() if kk != "alias"}
            elif isinstance(x, (dict, list)) and k not in ("tbl",):
                x = self._unaliased(x)
            out[k] = x
        return out
    def r_insert(self, v, kd, ri, scope):
        if kd == "table":
            return {"a": self._row([self.var(ri)])}, [self.var(ri)]
        c = self.wch([("row", 5), ("rows", 2), ("empty", 0.3)])
        if c == "row":
            return {"a": self._row(scope)}, scope
        if c == "rows":
            return {"a": [{"t": "v", "k": "tuple", "v": self._row(scope)} for _ in range(self.rng.randint(1, 3))]}, scope
        return {"a": []}, scope

    def r_replace(self, v, kd, ri, scope):
        return self.r_insert(v, "qb", ri, scope)

    def r_set(self, v, kd, ri, scope):
        f = self.ch(COLS) if self.p(0.5) else self.g_field(scope, alias_ok=False)
        c = self.wch([("val", 5), ("expr", 3), ("subq", 0.6)])
        val = self.g_pyval() if c == "val" else self.g_expr(self.k["depth"], scope) if c == "expr" else self.g_query(0, nsel=1)
        return {"a": [f, val]}, scope

    def r_on_conflict(self, v, kd, ri, scope):
        a = []
        for _ in range(self.rng.randint(0, 2)):
            a.append(self.ch(COLS) if self.p(0.6) else self.g_field(scope, alias_ok=False))
        return {"a": a}, scope

    def r_do_update(self, v, kd, ri, scope):
        f = self.ch(COLS) if self.p(0.6) else self.g_field(scope, alias_ok=False)
        a = [f]
        if self.p(0.6):
            a.append(self.g_pyval(True) if self.p(0.6) else self.g_expr(1, scope))
        return {"a": a}, scope

    def _setop(self, v, kd, ri, scope, m=None):
        q = None
        if self.p(0.6):
            q = self.query_ref(setop_ok=False)
        if q is None:
            d = lib.state(v)
            base = v if kd == "qb" else d.get("base_query")
            nsel = len(lib.state(base).get("_selects", [])) if base is not None else 1
            if self.p(0.1):
                nsel += 1
            qc = type(base).QUERY_CLS.__name__ if base is not None else None
            q = self.g_query(0, nsel=max(nsel, 1), cls=qc if self.p(0.8) else None)
        op = {"a": [q]}
        if m:
            op["m"] = m
        return op, scope

    def r_union(self, v, kd, ri, scope):
        return self._setop(v, kd, ri, scope)

    r_union_all = r_intersect = r_except_of = r_minus = r_union

    def r_add(self, v, kd, ri, scope):
        return self._setop(v, kd, ri, scope, "__add__")

    def r_mul(self, v, kd, ri, scope):
        return self._setop(v, kd, ri, scope, "__mul__")

    def r_sub(self, v, kd, ri, scope):
        return self._setop(v, kd, ri, scope, "__sub__")

    def r_replace_table(self, v, kd, ri, scope):
        cur = self.ch(scope) if scope and self.p(0.7) else self.g_table()
        new = self.g_table()
        if self.p(0.06):
            cur = None
        if self.p(0.06):
            new = None
        sc = [new if s is cur else s for s in scope] if new is not None else scope
        return {"a": [cur, new]}, sc

    def r_as(self, v, kd, ri, scope):
        return {"m": "as_", "a": [self.new_alias()]}, scope

    # -- dialect specific -----------------------------------------------------------
    def r_distinct_on(self, v, kd, ri, scope):
        return {"a": [self.ch(COLS) if self.p(0.4) else self.g_field(scope) for _ in range(self.rng.randint(1, 2))]}, scope

    def r_returning(self, v, kd, ri, scope):
        a = []
        for _ in range(self.rng.randint(1, 3)):
            c = self.wch([("field", 4), ("str", 3), ("star", 1), ("expr", 1), ("val", 1), ("fn", 0.3), ("tstar", 0.5)])
            if c == "field":
                F = self.L.terms.Field
                hf = self.slots(lambda v, i: self.kind(v) == "term" and type(v) is F)
                if hf and self.p(0.35):
                    a.append(self.var(self.ch(hf)))  # the caller's own Field object (possibly without a table)
                elif self.p(0.25):
                    a.append({"t": "field", "name": self.ch(COLS), "tbl": None})
                else:
                    a.append(self.g_field(scope))
            elif c == "str":
                a.append(self.ch(COLS))
            elif c == "star":
                a.append("*")
            elif c == "expr":
                a.append({"t": "bin", "op": "add", "l": self.g_field(scope, alias_ok=False), "r": 1})
            elif c == "val":
                a.append(self.g_pyval(True))
            elif c == "tstar":
                a.append({"t": "star", "tbl": self.scope_table(scope)})
            else:
                a.append({"t": "new", "c": "fn.Max", "a": [self.g_field(scope)]})
        return {"a": a}, scope

    def r_top(self, v, kd, ri, scope):
        return {"a": [self.ch([1, 10, "5", "abc"])]}, scope

    def r_fetch_next(self, v, kd, ri, scope):
        return {"a": [self.ch([1, 10])]}, scope

    def r_modifier(self, v, kd, ri, scope):
        return {"a": [self.ch(["SQL_CALC_FOUND_ROWS", "HIGH_PRIORITY", "STRAIGHT_JOIN"])]}, scope

    # -- DDL / load -----------------------------------------------------------------
    def r_create_table(self, v, kd, ri, scope):
        return {"a": ["t_again"]}, scope

    def r_temporary(self, v, kd, ri, scope):
        return {}, scope

    r_unlogged = r_with_system_versioning = r_if_not_exists = r_if_exists = r_temporary

    def r_period_for(self, v, kd, ri, scope):
        return {"a": [self.ch(["valid_period", "sys_p"]), "start_d" if self.p(0.6) else {"t": "new", "c": "Column", "a": ["s2"]},
                      "end_d"]}, scope

    def _cols(self):
        return [self.ch(["id", "name", "v"]) if self.p(0.6) else {"t": "new", "c": "Column", "a": [self.ch(["id", "name"]), "INT"]}
                for _ in range(self.rng.randint(1, 2))]

    def r_unique(self, v, kd, ri, scope):
        return {"a": self._cols()}, scope

    def r_primary_key(self, v, kd, ri, scope):
        return {"a": self._cols()}, scope

    def r_as_select(self, v, kd, ri, scope):
        q = self.query_ref(setop_ok=False)
        if q is None or self.p(0.5):
            q = self.g_query(1)
        if self.p(0.05):
            q = "not a query"
        return {"a": [q]}, scope

    def r_drop_table(self, v, kd, ri, scope):
        return {"a": ["t_again"]}, scope

    def r_load(self, v, kd, ri, scope):
        return {"a": ["/tmp/other.csv"]}, scope

    # -- Table ----------------------------------------------------------------------
    def r_for(self, v, kd, ri, scope):
        c = {"t": "meth", "x": {"t": "const", "name": "SYSTEM_TIME"}, "m": self.ch(["as_of", "between"]),
             "a": ["2020-01-01"]}
        if c["m"] == "between":
            c["a"] = ["2020-01-01", "2020-02-01"]
        if self.p(0.5):
            r = self.term_ref(crit=True)  # a shared criterion object as the temporal clause
            if r is not None:
                c = r
        elif self.p(0.2):
            c = {"t": "meth", "x": c, "m": "as_", "a": [self.new_alias()]}
        return {"m": "for_", "a": [c]}, scope

    def r_for_portion(self, v, kd, ri, scope):
        c = {"t": "meth", "x": {"t": "const", "name": "SYSTEM_TIME"}, "m": "from_to", "a": ["2020-01-01", "2020-02-01"]}
        return {"a": [c]}, scope

    # -- terms ----------------------------------------------------------------------
    def r_when(self, v, kd, ri, scope):
        return {"a": [self.g_crit(1, scope), self.g_expr(1, scope, term_only=False)]}, scope

    def r_else(self, v, kd, ri, scope):
        return {"m": "else_", "a": [self.g_expr(1, scope, term_only=False)]}, scope

    def r_filter(self, v, kd, ri, scope):
        return {"a": [self.g_crit(1, scope) for _ in range(self.rng.randint(1, 2))]}, scope

    def r_over(self, v, kd, ri, scope):
        return {"a": self.fields(scope, 0, 2, alias_ok=False)}, scope

    def r_rows(self, v, kd, ri, scope):
        a = [self.g_edge()]
        if self.p(0.5):
            a.append(self.g_edge())
        return {"a": a}, scope

    r_range = r_rows

    def r_ignore_nulls(self, v, kd, ri, scope):
        return {}, scope

    def r_negate(self, v, kd, ri, scope):
        return {}, scope

"""A small dialect-aware SQL lexer for the C13 riders: balance of brackets/quotes, top-level
clause keywords, clause bodies and their top-level comma items.  Knows identifier quote (" or `),
string quote ' with '' doubling (and backslash escapes for MySQL); anything inside quotes is opaque;
"top level" = bracket depth 0 outside quotes."""
from __future__ import annotations

import re


class LexError(Exception):
    pass


def tokens(sql: str, ident_quote: str = '"', backslash: bool = False):
    """Yield (kind, text, depth, start, end); kinds: id str lp rp comma word op."""
    out = []
    i, n, depth = 0, len(sql), 0
    stack = []
    while i < n:
        c = sql[i]
        if c.isspace():
            i += 1
            continue
        if c == "'":
            j = i + 1
            while True:
                if j >= n:
                    raise LexError("unterminated string literal at %d" % i)
                if backslash and sql[j] == "\\":
                    j += 2
                    continue
                if sql[j] == "'":
                    if j + 1 < n and sql[j + 1] == "'":
                        j += 2
                        continue
                    break
                j += 1
            out.append(("str", sql[i:j + 1], depth, i, j + 1))
            i = j + 1
            continue
        if c == ident_quote or c in '"`':
            q = c
            j = sql.find(q, i + 1)
            if j < 0:
                raise LexError("unterminated quoted identifier at %d" % i)
            out.append(("id", sql[i:j + 1], depth, i, j + 1))
            i = j + 1
            continue
        if c in "([":
            stack.append(c)
            out.append(("lp", c, depth, i, i + 1))
            depth += 1
            i += 1
            continue
        if c in ")]":
            if not stack or {"(": ")", "[": "]"}[stack[-1]] != c:
                raise LexError("unbalanced %r at %d" % (c, i))
            stack.pop()
            depth -= 1
            out.append(("rp", c, depth, i, i + 1))
            i += 1
            continue
        if c == ",":
            out.append(("comma", c, depth, i, i + 1))
            i += 1
            continue
        m = re.match(r"[A-Za-z_][A-Za-z_0-9$]*", sql[i:])
        if m:
            out.append(("word", m.group(0), depth, i, i + m.end()))
            i += m.end()
            continue
        m = re.match(r"[0-9]+(\.[0-9]+)?", sql[i:])
        if m:
            out.append(("num", m.group(0), depth, i, i + m.end()))
            i += m.end()
            continue
        out.append(("op", c, depth, i, i + 1))
        i += 1
    if stack:
        raise LexError("unclosed %r" % stack[-1])
    return out


# multi-word clause keywords first (longest match)
CLAUSES = [
    ("INSERT IGNORE INTO", "INSERT"), ("INSERT INTO", "INSERT"), ("REPLACE INTO", "INSERT"),
    ("ON DUPLICATE KEY UPDATE", "ON DUPLICATE KEY UPDATE"), ("ON CONFLICT", "ON CONFLICT"),
    ("DO NOTHING", "DO"), ("DO UPDATE SET", "DO"), ("GROUP BY", "GROUP BY"), ("ORDER BY", "ORDER BY"),
    ("WITH ROLLUP", "WITH ROLLUP"), ("WITH TOTALS", "WITH TOTALS"), ("FOR UPDATE", "FOR UPDATE"),
    ("FETCH NEXT", "FETCH NEXT"), ("FORCE INDEX", "FORCE INDEX"), ("USE INDEX", "USE INDEX"),
    ("WITH SYSTEM VERSIONING", "WITH SYSTEM VERSIONING"),
    ("CREATE TEMPORARY TABLE", "CREATE"), ("CREATE UNLOGGED TABLE", "CREATE"), ("CREATE TABLE", "CREATE"),
    ("DROP TABLE", "DROP"),
    ("LEFT OUTER JOIN", "JOIN"), ("RIGHT OUTER JOIN", "JOIN"), ("FULL OUTER JOIN", "JOIN"), ("LEFT JOIN", "JOIN"),
    ("RIGHT JOIN", "JOIN"), ("CROSS JOIN", "JOIN"), ("HASH JOIN", "JOIN"), ("JOIN", "JOIN"),
    ("WITH", "WITH"), ("SELECT", "SELECT"), ("UPDATE", "UPDATE"), ("DELETE", "DELETE"), ("INTO", "INTO"),
    ("FROM", "FROM"), ("PREWHERE", "PREWHERE"), ("WHERE", "WHERE"), ("HAVING", "HAVING"), ("LIMIT", "LIMIT"),
    ("OFFSET", "OFFSET"), ("RETURNING", "RETURNING"), ("VALUES", "VALUES"), ("SET", "SET"),
]


def top_clauses(sql: str, ident_quote='"', backslash=False, calls_are_terms=False):
    """[(clause name, token index of its first word, token index after its keyword)] at depth 0.
    calls_are_terms: a word glued to an opening bracket (INSERT(...), VALUES(col)) is a function call, not a keyword."""
    toks = tokens(sql, ident_quote, backslash)
    res = []
    i = 0
    temporal = False  # inside "<table> FOR PORTION OF p FROM a TO b" / "FOR SYSTEM_TIME FROM a TO b": FROM is no clause
    while i < len(toks):
        k, t, d, _, _ = toks[i]
        if k == "word" and d == 0:
            hit = None
            up = t.upper()
            if up == "FOR" and i + 1 < len(toks) and toks[i + 1][0] == "word" and toks[i + 1][1].upper() in ("PORTION", "SYSTEM_TIME"):
                temporal = True
                i += 2
                continue
            if temporal and up == "FROM":
                temporal = False
                i += 1
                continue
            if calls_are_terms and i + 1 < len(toks) and toks[i + 1][0] == "lp" and toks[i + 1][3] == toks[i][4]:
                i += 1
                continue
            for phrase, name in CLAUSES:
                ws = phrase.split()
                if i + len(ws) <= len(toks) and all(
                        toks[i + j][0] == "word" and toks[i + j][2] == 0 and toks[i + j][1].upper() == ws[j]
                        for j in range(len(ws))):
                    hit = (name, len(ws))
                    break
            if hit:
                res.append((hit[0], i, i + hit[1]))
                i += hit[1]
                continue
        i += 1
    return toks, res


def clause_items(sql: str, name: str, ident_quote='"', backslash=False, occurrence=0):
    """Top-level comma separated items (as source text) of the body of the named clause, or None."""
    toks, cl = top_clauses(sql, ident_quote, backslash)
    hits = [k for k, c in enumerate(cl) if c[0] == name]
    if len(hits) <= occurrence:
        return None
    k = hits[occurrence]
    start_tok = cl[k][2]
    end_tok = cl[k + 1][1] if k + 1 < len(cl) else len(toks)
    if start_tok >= end_tok:
        return []
    items = []
    cur_start = toks[start_tok][3]
    for j in range(start_tok, end_tok):
        if toks[j][0] == "comma" and toks[j][2] == 0:
            items.append(sql[cur_start:toks[j][3]].strip())
            cur_start = toks[j][4]
    items.append(sql[cur_start:toks[end_tok - 1][4]].strip())
    return items


def paren_items(text: str, ident_quote='"', backslash=False):
    """Items of the first parenthesised group in text, split at its depth-1 commas."""
    toks = tokens(text, ident_quote, backslash)
    for a, t in enumerate(toks):
        if t[0] == "lp":
            items = []
            cur = t[4]
            for b in range(a + 1, len(toks)):
                if toks[b][0] == "comma" and toks[b][2] == t[2] + 1:
                    items.append(text[cur:toks[b][3]].strip())
                    cur = toks[b][4]
                if toks[b][0] == "rp" and toks[b][2] == t[2]:
                    items.append(text[cur:toks[b][3]].strip())
                    return items
    return None


PREDICATE_CLAUSES = {"WHERE", "PREWHERE", "HAVING", "ON", "GROUP BY", "ORDER BY", "VALUES", "ON CONFLICT", "DISTINCT ON"}
_FRAME_CLAUSES = [(ph.split(), nm) for ph, nm in CLAUSES] + [(["ON"], "ON"), (["USING"], "USING"), (["UNION"], "SETOP"),
                                                              (["INTERSECT"], "SETOP"), (["EXCEPT"], "SETOP"),
                                                              (["MINUS"], "SETOP"), (["OVER"], None)]


def predicate_juxtapositions(sql: str, ident_quote='"', backslash=False):
    """Places where, inside a predicate-like clause (WHERE, PREWHERE, HAVING, join ON, GROUP BY, ORDER BY) of the
    statement or of any nested SELECT, an operand (quoted identifier, literal, number, closing bracket) is directly
    followed by a quoted identifier with no operator, comma or keyword between them: an alias rendered where no alias
    can stand.  Clauses are tracked per SELECT frame (a bracket group that starts with SELECT/WITH); other brackets
    inherit the clause they sit in.  Returns [(clause, text around)]."""
    toks = tokens(sql, ident_quote, backslash)
    out = []
    frames = [{"clause": None, "select": True}]  # the statement itself
    i = 0
    n = len(toks)
    while i < n:
        k, t, d, a, b = toks[i]
        fr = frames[-1]
        if k == "lp":
            nxt = toks[i + 1] if i + 1 < n else None
            is_sel = nxt is not None and nxt[0] == "word" and nxt[1].upper() in ("SELECT", "WITH")
            clause = None if is_sel else fr["clause"]
            if i >= 2 and toks[i - 1][0] == "word" and toks[i - 1][1].upper() == "ON" \
                    and toks[i - 2][0] == "word" and toks[i - 2][1].upper() == "DISTINCT":
                clause = "DISTINCT ON"  # PostgreSQL's DISTINCT ON(<expressions>): a list of expressions, no aliases
            frames.append({"clause": clause, "select": is_sel})
            i += 1
            continue
        if k == "rp":
            if len(frames) > 1:
                frames.pop()
            i += 1
            continue
        if k == "word" and fr["select"]:
            glued = i + 1 < n and toks[i + 1][0] == "lp" and toks[i + 1][3] == b
            hit = None
            if not glued:
                for ws, nm in _FRAME_CLAUSES:
                    if i + len(ws) <= n and all(toks[i + j][0] == "word" and toks[i + j][2] == d
                                                and toks[i + j][1].upper() == ws[j] for j in range(len(ws))):
                        hit = (nm, len(ws))
                        break
            if hit:
                if hit[0] is not None:
                    fr["clause"] = hit[0]
                i += hit[1]
                continue
        if fr["clause"] in PREDICATE_CLAUSES and k == "id" and i > 0:
            pk, pt, pd, pa, pb = toks[i - 1]
            if pd == d and pk in ("id", "str", "num") or (pk == "rp" and pd == d):
                out.append((fr["clause"], sql[max(0, pa - 30):b + 10]))
        i += 1
    return out


def comment_markers(sql: str, ident_quote='"', backslash=False):
    """Places outside literals and quoted identifiers where the text contains the comment opener `--`: the
    library never writes comments, so one of these is an accident of juxtaposition (x - -1 rendered as x--1) that makes
    the engine ignore the rest of the line."""
    toks = tokens(sql, ident_quote, backslash)
    out = []
    for i in range(len(toks) - 1):
        a, b = toks[i], toks[i + 1]
        # ("/*" is not looked for: the only way to it is a division by a star, which is no expression to begin with)
        if a[0] == "op" and b[0] == "op" and a[4] == b[3] and (a[1], b[1]) == ("-", "-"):
            out.append(sql[max(0, a[3] - 20):b[4] + 12])
    return out

"""C15 — copy, deepcopy and pickle round-trips preserve and decouple.

The C01 heap with one more event kind, dup(v, how), interleaved with builder calls on BOTH
sides, including mutable-mode (immutable=False) builders as heap leaves, asynchronous exceptions
during duplication, scheduled threads, and `restart`: the pickled bytes are handed to a fresh
interpreter with another PYTHONHASHSEED which restores the object, continues the op script and
reports observations.  Model: dup is the identity on expressions (ref(dup(v)) = ref(v)).
"""
from __future__ import annotations

import base64
import collections
import json
import os
import pickle
import random
import subprocess
import sys

from . import c01, c15h, engine, gen, lang, lib, obs, runner, sched, shrink
from .engine import MutableAlias, is_object_slot

PROP = "C15"
CONFIGS = [("seq", 0.6), ("seq-fault", 0.2), ("thr", 0.2)]
HERE = os.path.dirname(os.path.dirname(os.path.abspath(__file__)))
HOWS = [("copy", 3), ("deepcopy", 3), ("pickle", 3)]


def latest_alias(heap):
    """{root slot: latest slot aliasing it} for mutable-mode chains."""
    latest = {}
    for i, v in enumerate(heap):
        if isinstance(v, MutableAlias):
            r = v.root
            while isinstance(heap[r], MutableAlias):
                r = heap[r].root
            latest[r] = i
    return latest


def gen_dup(g, rng):
    h = g.env.heap
    lat = latest_alias(h)
    cands = []
    for i, v in enumerate(h):
        if not is_object_slot(v):
            continue
        kd = g.kind(v)
        if kd in ("other", "empty"):
            continue
        w = 3 if kd in ("table", "schema", "setop", "aliasedq") else 1
        if kd == "term" and isinstance(v, g.L.terms.Not):
            w = 3
        if g.k.get("autoalias") and any(d != i and is_object_slot(h[d]) and g.kind(h[d]) == "qb"
                                        and lib.state(h[d]).get("alias") is None for d in lang.cone(g.program, i)):
            w = 8  # a composite that holds a still un-aliased sub-query of the heap by reference
        cands.extend([i] * w)
    if not cands:
        return None
    i = cands[rng.randrange(len(cands))]
    src = lat.get(i, i)  # duplicate the current state of a mutable chain
    # under recorded alias effects only the deep mechanisms are generated: a shallow copy shares what its original
    # holds by reference, so an alias written into a shared sub-query rightly shows in both (nothing to decide there)
    hows = [x for x in HOWS if x[0] != "copy"] if g.k.get("autoalias") else HOWS
    r = rng.random() * sum(w for _, w in hows)
    how = hows[-1][0]
    for hh, w in hows:
        r -= w
        if r < 0:
            how = hh
            break
    op = {"op": "dup", "o": src, "how": how}
    if how == "pickle":
        op["proto"] = rng.randint(0, 5)
    return g.emit(op, scope=list(g.scope_of(src) or g.scope_of(i)))


def build(seed, run, overrides=None):
    rng = random.Random(gen.derive_seed(seed, run, 0xC15))
    knobs = gen.default_knobs(rng, PROP)
    knobs["mutable"] = rng.random() < 0.4
    knobs["p_dup"] = rng.choice([0.15, 0.25, 0.4])
    knobs["p_stmt"] = rng.choice([0.0, 0.3, 0.6])  # complete statements (upserts, UPDATE..JOIN, set operations) as roots
    # un-aliased sub-queries of the heap in aliasing positions: the automatic alias written into a SHARED argument after
    # a duplication must show in the original's holders and never in the duplicate (recorded as alias_fx, as in C01)
    knobs["autoalias"] = (not knobs["mutable"]) and rng.random() < 0.4
    if overrides:
        knobs.update(overrides)
    env = lang.Env(share_tables=knobs["share_tables"])
    g = gen.Gen(rng, knobs, env)
    discard = None
    ndup = 0
    hot = []  # both sides of recent duplication events: they stay live receivers
    tag_next = None
    for _ in range(knobs["nops"]):
        i = None
        if tag_next is not None:
            # a new statement takes a still un-aliased sub-query, which the duplicated object holds by reference, as its
            # FROM source: the library writes the automatic alias into that shared object
            i = g.emit({"op": "new", "x": {"t": "meth", "x": {"t": "cls", "name": rng.choice(knobs["qcls"])}, "m": "from_",
                                           "a": [{"t": "var", "i": tag_next}]}})
            tag_next = None
        if i is None and len(env.heap) >= 1 and rng.random() < knobs["p_dup"]:
            i = gen_dup(g, rng)
            if i is not None:
                ndup += 1
                hot = ([i, g.program[i]["o"]] + hot)[:6]
                if knobs["autoalias"] and rng.random() < 0.6:
                    subs = [d for d in lang.cone(g.program, g.program[i]["o"])
                            if d != g.program[i]["o"] and is_object_slot(env.heap[d]) and g.kind(env.heap[d]) == "qb"
                            and lib.state(env.heap[d]).get("alias") is None]
                    if subs:
                        tag_next = subs[rng.randrange(len(subs))]
        if i is None and hot and rng.random() < 0.4:
            # a builder call on the duplicate or on its original (the latest state of a mutable chain)
            lat = latest_alias(env.heap)
            ri = hot[rng.randrange(len(hot))]
            root = ri
            while isinstance(env.heap[root], MutableAlias):
                root = env.heap[root].root
            ri = lat.get(root, root)
            v = g.deref(ri)
            if is_object_slot(v):
                ms = g.methods_of(v)
                if ms:
                    m = "replace_table" if ("replace_table" in ms and rng.random() < 0.3) else g.pick_method(v, ms)
                    i = g.g_call(ri, m)
        if i is None:
            i = g.next_op()
        op = g.program[i]
        before = c01.alias_snapshot(env, op)
        env.heap.append(engine.exec_op(env, op))
        discard = c01.record_alias_fx(env, op, before, knobs["autoalias"])
        if discard:
            break
    return {"program": g.program, "knobs": knobs, "env": env, "gen": g, "discard": discard, "rng": rng, "ndup": ndup}


def ref_object_obs(program, target, st, okw):
    env = engine.rebuild(program, target, st)
    v = engine._deref(env, target)
    if is_object_slot(v):
        return obs.observe(v, **okw)
    return engine.slot_obs(env, target, **okw)


def check_slots(program, env, st, okw):
    lat = latest_alias(env.heap)
    bad = []
    trail = []
    n = 0
    for i in range(len(program)):
        v = env.heap[i]
        if isinstance(v, (lang.Skipped, lang.Value, MutableAlias)):
            trail.append(type(v).__name__)
            continue
        if isinstance(v, lang.Failed) and v.injected:
            trail.append("injected")
            continue
        a = engine.slot_obs(env, i, **okw)
        tgt = lat.get(i, i)
        if isinstance(env.heap[tgt], MutableAlias) or tgt != i:
            r = ref_object_obs(program, tgt, st, okw)
        else:
            r = engine.reference_obs(program, i, st, **okw)
        n += 1
        trail.append(obs.strip_inprocess(a))
        d = obs.diff(a, r)
        if d:
            bad.append((i, d, a, r))
    return bad, n, trail


def with_identity_dups(program):
    out = []
    for op in program:
        if op["op"] == "dup":
            op = dict(op)
            op["how"] = "identity"
        out.append(op)
    return out


def dup_sides(program):
    """Slots that are a duplicate or derived from one."""
    side = set()
    for i, op in enumerate(program):
        if op["op"] == "dup" or any(d in side for d in lang.op_deps(op)):
            side.add(i)
    return side


def one_run(seed, run, force_config=None, overrides=None, max_diag=3):
    L = lib.get()
    b = build(seed, run, overrides)
    program, knobs, env, rng = b["program"], b["knobs"], b["env"], b["rng"]
    config = c01.pick_config(rng, force_config, CONFIGS)
    if knobs["mutable"] and config == "thr":
        # concurrent in-place calls on a mutable-mode builder are the caller's race, not a library promise
        config = "seq"
    if knobs.get("autoalias"):
        # recorded alias effects are replayed at log positions, which only a sequential execution has (as in C01)
        config = "seq"
    if b["discard"] == "alias of an already aliased argument changed":
        b["discard"] = None  # judged by the comparison itself
    okw = {"ctx_names": sorted(rng.sample(L.CTX_NAMES, 3))}
    st = knobs["share_tables"]
    res = {"run": run, "config": config + ("+autoalias" if knobs.get("autoalias") else ""), "nops": len(program),
           "discard": b["discard"], "violations": [],
           "not_c15": 0, "harness": [], "steps": 0, "switches": 0, "fired": {}, "overlap": 0, "n_cmp": 0,
           "shape": None, "nontrivial": False, "ndup": b["ndup"], "schedule_hash": None, "preempt_in_lib": 0,
           "hows": {}, "dup_kinds": {}, "mutable_objs": 0, "calls_after_dup": 0,
           "alias_fx": sum(len(op.get("alias_fx", ())) for op in program)}
    if b["discard"]:
        return res, program
    res["shape"] = runner.shape_of(program)
    dups = [i for i, op in enumerate(program) if op["op"] == "dup"]
    side = dup_sides(program)
    # non-trivial: a duplicate (or its original) receives a later builder call
    after = 0
    for i, op in enumerate(program):
        if op["op"] in ("call", "join"):
            r = op["r"]
            if r in side or any(program[d]["o"] == r and d < i for d in dups):
                after += 1
    res["calls_after_dup"] = after
    res["nontrivial"] = bool(dups) and after > 0
    res["hows"] = dict(collections.Counter(program[i]["how"] for i in dups))
    res["dup_kinds"] = dict(collections.Counter(
        type(engine._deref(env, program[i]["o"])).__name__ for i in dups if is_object_slot(engine._deref(env, program[i]["o"]))))
    res["mutable_objs"] = sum(1 for v in env.heap if is_object_slot(v) and lib.state(v).get("immutable", True) is False)

    plan = trace = None
    if config != "seq":
        op_len, _ = sched.measure(program, st)
        plan = c01.plan_sim(program, knobs, rng, config, op_len)
        # an in-place call on a mutable-mode builder that is interrupted half-way may leave it half updated:
        # no atomicity is promised there, so faults are not placed inside such calls
        def _mut_recv(i):
            op = program[i]
            if op["op"] not in ("call", "join"):
                return False
            r = engine._deref(env, op["r"])
            return is_object_slot(r) and lib.state(r).get("immutable", True) is False
        plan["faults"] = [f for f in plan["faults"] if not _mut_recv(f["op"])]
        if config == "seq-fault" and dups and rng.random() < 0.7:
            # place a fault inside a duplication event
            dd = [i for i in dups if op_len.get(i, 0) > 1]
            if dd:
                i = dd[rng.randrange(len(dd))]
                plan["faults"] = [f for f in plan["faults"] if f["op"] != i]
                plan["faults"].append({"op": i, "step": rng.randint(1, op_len[i]),
                                       "kind": "async_exc" if rng.random() < 0.65 else "async_err"})
        env, sim, trace = c01.run_sim(program, st, plan, rng=rng)
        res["steps"] = sim.clock
        res["switches"] = sim.switches
        res["fired"] = dict(sim.fired)
        res["overlap"] = sim.overlap
        res["schedule_hash"] = "%016x" % sim.hash
        res["preempt_in_lib"] = getattr(sim, "preempt_in_lib", 0)

    bad, n_cmp, trail = check_slots(program, env, st, okw)
    res["n_cmp"] = n_cmp
    res["xdigest"] = runner.digest([program, config, c01.plan_shape(plan), trail, sorted(res["fired"])])
    res["digest"] = runner.digest([res["xdigest"], trace, res["steps"], res["schedule_hash"]])

    seen = set()
    for victim, d, a, r in bad[:max_diag]:
        vobj = env.heap[victim]
        is_mut = is_object_slot(vobj) and lib.state(vobj).get("immutable", True) is False
        # attribution: the same history with every dup replaced by the identity
        if not is_mut:
            p_id = with_identity_dups(program)
            env_i = engine.execute(p_id, share_tables=st)
            a_i = engine.slot_obs(env_i, victim, **okw)
            # judged against the reference in which a duplicate IS its original (under recorded alias effects the
            # ordinary reference gives the duplicate a life of its own, which the identity does not have)
            r_i = engine.reference_obs(program, victim, st, dup_fresh=False, **okw)
            if obs.diff(a_i, r_i):
                res["not_c15"] += 1  # fails without any duplication: builder history (C01), not C15
                continue
        env_s = engine.execute(program, share_tables=st)
        bad_s, _, _ = check_slots(program, env_s, st, okw)
        seq_fails = any(v == victim for v, _, _, _ in bad_s)
        # which duplication event is involved: the latest dup in the victim's cone, else the latest dup of a relative
        cn = set(lang.cone(program, victim))
        dcone = [i for i in dups if i in cn]
        rel = "duplicate-side" if dcone else "original-side"
        culprit_dup = dcone[-1] if dcone else (dups[-1] if dups else None)
        how = program[culprit_dup]["how"] if culprit_dup is not None else "?"
        src = engine._deref(env_s, program[culprit_dup]["o"]) if culprit_dup is not None else None
        clsname = c01.owner_of(type(src), "__copy__") if (src is not None and how == "copy" and hasattr(type(src), "__copy__")) \
            else (type(src).__name__ if src is not None else "?")
        kind = "dup" if seq_fails else ("thread" if config == "thr" else "fault")
        sig = f"{PROP}:{kind}:{how}:{clsname}:{rel}" + (":mutable" if is_mut else "")
        if sig in seen:
            continue
        seen.add(sig)
        prog2, v2 = program, victim
        extra = {"config": config, "plan": plan, "trace": trace}
        if seq_fails:
            prog2, v2 = minimise(program, victim, st, okw)
            extra = {"config": "seq"}
        payload = {"property": PROP, "seed": seed, "run": run, "share_tables": st, "program": prog2, "victim": v2,
                   "okw": okw, "signature": sig, "differs_on": d[:10],
                   "observed": {k: a.get(k) for k in d[:3]}, "expected": {k: r.get(k) for k in d[:3]},
                   "hashseed": os.environ.get("PYTHONHASHSEED", "random")}
        payload.update(extra)
        res["violations"].append({"signature": sig, "payload": payload})
    return res, program


def minimise(program, victim, st, okw):
    """Greedy removal of ops outside the victim's cone (mutable chains keep their whole chain)."""
    env0 = engine.execute(program, share_tables=st)
    lat = latest_alias(env0.heap)
    base = set(lang.cone(program, lat.get(victim, victim)))
    extra = set(range(len(program))) - base

    def fails(keep):
        sub, mp = shrink.slice_program(program, sorted(keep))
        env = engine.execute(sub, share_tables=st)
        bad, _, _ = check_slots(sub, env, st, okw)
        return any(v == mp[victim] for v, _, _, _ in bad)

    try:
        m = shrink.minimise_extra(program, base, extra, fails)
    except Exception:  # noqa: BLE001
        m = extra
    keep = sorted(base | m)
    sub, mp = shrink.slice_program(program, keep)
    return sub, mp[victim]


def replay(payload):
    if payload.get("kind") == "restart":
        return replay_restart(payload)
    if payload.get("kind") == "holder":
        return c15h.replay(payload)
    prog, v, st, okw = payload["program"], payload["victim"], payload.get("share_tables", True), payload.get("okw") or {}
    if payload.get("config", "seq") == "seq":
        env = engine.execute(prog, share_tables=st)
    else:
        env, _, _ = c01.run_sim(prog, st, payload["plan"], trace=payload["trace"])
    bad, _, _ = check_slots(prog, env, st, okw)
    if any(x == v for x, _, _, _ in bad):
        return True, payload["signature"]
    return False, "not reproduced"


# ------------------------------------------------------------------ restart (pickle -> other interpreter)
def restart_task(seed, run):
    """Pick one object of the run, pickle it; the child restores it, CONTINUES the op script and observes."""
    b = build(seed, run)
    if b["discard"] or b["knobs"].get("autoalias"):
        # recorded alias effects belong to the one-process log order; the restart oracle keeps to runs without them
        return None
    program, env, rng, st = b["program"], b["env"], b["rng"], b["knobs"]["share_tables"]
    rr = random.Random(gen.derive_seed(seed, run, 0x5E57))
    # restart point: an object slot that later ops depend on (so the script continues on the restored object)
    users = collections.Counter()
    for op in program:
        for d in lang.op_deps(op):
            users[d] += 1
    cands = [i for i, v in enumerate(env.heap) if is_object_slot(v) and obs.kind_of(b["gen"].L, v) not in ("other", "empty")]
    if not cands:
        return None
    withusers = [i for i in cands if users[i] > 0]
    pool = withusers if (withusers and rr.random() < 0.8) else cands
    k = pool[rr.randrange(len(pool))]
    # the parent executes the prefix up to k (linear order), pickles slot k
    envp = engine.execute(program[: k + 1], share_tables=st)
    o = envp.heap[k]
    if not is_object_slot(o):
        return None
    if lib.state(o).get("immutable", True) is False:
        return None  # mutable-mode chains are judged in-process only
    proto = rr.randint(0, 5)
    try:
        blob = pickle.dumps(o, protocol=proto)
    except Exception as e:  # noqa: BLE001
        return {"run": run, "k": k, "program": program, "st": st, "pickle_error": type(e).__name__ + ": " + str(e)[:200]}
    def _mut(i):
        v = env.heap[i]
        return isinstance(v, MutableAlias) or (is_object_slot(v) and lib.state(v).get("immutable", True) is False)

    # mutable-mode chains are judged in-process only (their slots alias one evolving object)
    dependents = [i for i in range(len(program)) if (i == k or k in lang.cone(program, i)) and not _mut(i)]
    refs = {}
    for i in dependents:
        refs[i] = engine.reference_obs(program, i, st, inprocess=False)
    return {"run": run, "k": k, "proto": proto, "program": program, "st": st, "blob": base64.b64encode(blob).decode(),
            "dependents": dependents, "refs": refs,
            "src_class": type(o).__name__}


def child_main():
    tasks = json.loads(sys.stdin.read())
    lib.get()
    out = []
    for t in tasks:
        program, k, st = t["program"], t["k"], t["st"]
        env = lang.Env(share_tables=st)
        res = {"run": t["run"], "obs": {}}
        try:
            for i, op in enumerate(program):
                if i == k:
                    env.heap.append(pickle.loads(base64.b64decode(t["blob"])))
                else:
                    env.heap.append(engine.exec_op(env, op))
            for i in t["dependents"]:
                res["obs"][str(i)] = engine.slot_obs(env, i, inprocess=False)
            # ablation in the same interpreter: the same script WITHOUT the restart (slot k built natively)
            env2 = engine.execute(program, share_tables=st)
            res["native"] = {str(i): engine.slot_obs(env2, i, inprocess=False) for i in t["dependents"]}
        except BaseException as e:  # noqa: BLE001
            res["error"] = type(e).__name__ + ": " + str(e)[:200]
        out.append(res)
    sys.stdout.write(json.dumps(out))


def run_children(tasks, hashseed):
    env = dict(os.environ)
    env["PYTHONHASHSEED"] = str(hashseed)
    env["PYTHONDONTWRITEBYTECODE"] = "1"
    code = "import sys; sys.path.insert(0, %r); from pikasim import c15; c15.child_main()" % HERE
    slim = [{k: t[k] for k in ("run", "k", "program", "st", "blob", "dependents")} for t in tasks]
    p = subprocess.run(["/venv/bin/python", "-c", code], env=env, input=json.dumps(slim), capture_output=True, text=True,
                       timeout=1200)
    if p.returncode != 0:
        raise lang.HarnessError("restart child failed: " + p.stderr[-1500:])
    return json.loads(p.stdout)


def restart_check(seed, runs, hashseed):
    tasks = []
    viol = []
    for run in runs:
        t = restart_task(seed, run)
        if t is None:
            continue
        if "pickle_error" in t:
            sig = f"{PROP}:restart:pickle-failed"
            viol.append((sig, {"property": PROP, "kind": "restart", "seed": seed, "run": run, "signature": sig,
                               "program": t["program"], "k": t["k"], "st": t["st"], "error": t["pickle_error"]}, run))
            continue
        tasks.append(t)
    if not tasks:
        return viol, 0, 0
    outs = run_children(tasks, hashseed)
    n = 0
    cont = 0
    for t, o in zip(tasks, outs):
        n += 1
        cont += max(0, len(t["dependents"]) - 1)
        if "error" in o:
            sig = f"{PROP}:restart:unpickle-failed:{t['src_class']}"
            viol.append((sig, dict(property=PROP, kind="restart", seed=seed, run=t["run"], signature=sig,
                                   program=t["program"], k=t["k"], st=t["st"], proto=t["proto"], hashseed=hashseed,
                                   error=o["error"]), t["run"]))
            continue
        for i in t["dependents"]:
            a = o["obs"][str(i)]
            r = t["refs"][i]
            if a.get("injected") or r.get("skipped"):
                continue
            d = obs.diff(a, r)
            if d and obs.diff(o["native"][str(i)], r):
                continue  # differs without any restart too: builder history (C01), not C15
            if d:
                what = "restored" if i == t["k"] else "continuation"
                sig = f"{PROP}:restart:{what}:{t['src_class']}"
                prog2, mp = t["program"], {j: j for j in range(len(t["program"]))}
                viol.append((sig, dict(property=PROP, kind="restart", seed=seed, run=t["run"], signature=sig,
                                       program=prog2, k=mp[t["k"]], victim=mp[i], st=t["st"], proto=t["proto"],
                                       hashseed=hashseed, differs_on=d[:8],
                                       observed={x: a.get(x) for x in d[:2]}, expected={x: r.get(x) for x in d[:2]}),
                             t["run"]))
                break
    return viol, n, cont


def replay_restart(payload):
    program, k, st = payload["program"], payload["k"], payload["st"]
    envp = engine.execute(program[: k + 1], share_tables=st)
    try:
        blob = pickle.dumps(envp.heap[k], protocol=payload.get("proto", 4))
    except Exception:  # noqa: BLE001
        return True, payload["signature"]
    v = payload.get("victim", k)
    t = {"run": 0, "k": k, "program": program, "st": st, "blob": base64.b64encode(blob).decode(), "dependents": [v]}
    o = run_children([t], payload.get("hashseed", 1))[0]
    if "error" in o:
        return True, payload["signature"]
    r = engine.reference_obs(program, v, st, inprocess=False)
    if obs.diff(o["obs"][str(v)], r) and not obs.diff(o["native"][str(v)], r):
        return True, payload["signature"]
    return False, "not reproduced"


# ------------------------------------------------------------------ batch / evidence
TIERS = {
    "quick": {"runs": 30000, "chunk": 50, "wall_cap": 900, "restart_frac": 0.3, "hashseeds": [1], "holder_frac": 0.4},
    "thorough": {"runs": 150000, "chunk": 200, "wall_cap": 5400, "restart_frac": 0.5, "hashseeds": [1, 4242],
                 "holder_frac": 1.0},
}


def batch(task):
    lib.get()
    seed, lo, hi = task["seed"], task["lo"], task["hi"]
    tier = TIERS[task.get("tier", "quick")]
    agg = new_agg()
    if runner.past_deadline():
        return agg  # the tier's soft time budget is used up: no further runs are started
    for run in range(lo, hi):
        try:
            res, program = runner.guarded(one_run, 120, seed, run, force_config=task.get("config"))
        except (runner.RunTimeout, lang.HarnessError) as e:
            agg["harness"].append({"run": run, "why": repr(e)[:200]})
            continue
        fold(agg, res, program)
        runner.note_violations(len(res["violations"]))
        if len(agg["violations"]) >= 12 or runner.stop_requested():
            break
    # holder mode: a mutable-mode sub-query embedded in a duplicated parent and changed in place afterwards (c15h)
    hk = max(1, int((hi - lo) * tier.get("holder_frac", 0.4)))
    try:
        ho = runner.guarded(c15h.run_many, 120, seed, lo, lo + hk)
    except (runner.RunTimeout, lang.HarnessError) as e:
        agg["harness"].append({"run": lo, "why": "holder: " + repr(e)[:200]})
        ho = None
    if ho:
        agg["holder_runs"] += ho["n"] - ho["discards"]
        agg["holder_discards"] += ho["discards"]
        agg["holder_reached"] += ho["reached"]
        agg["holder_embeds"].update(ho["embeds"])
        agg["holder_hows"].update(ho["hows"])
        for sig, payload, run in ho["violations"]:
            agg["violations"].append((sig, payload, run))
        runner.note_violations(len(ho["violations"]))
    k = max(1, int((hi - lo) * tier["restart_frac"]))
    sub = list(range(lo, hi))[:k]
    for hs in tier["hashseeds"]:
        viol, n, cont = restart_check(seed, sub, hs)
        agg["restarts"] += n
        agg["restart_continuations"] += cont
        agg["fired"]["restart"] += n
        for sig, payload, run in viol:
            agg["violations"].append((sig, payload, run))
    return agg


def new_agg():
    return {"runs": 0, "discards": 0, "ops": 0, "n_cmp": 0, "not_c15": 0, "harness": [], "violations": [],
            "steps": 0, "switches": 0, "fired": collections.Counter(), "overlap": 0, "shapes": set(),
            "nontrivial_shapes": set(), "configs": collections.Counter(), "samples": [], "schedules": set(),
            "preempt_in_lib": 0, "hows": collections.Counter(), "dup_kinds": collections.Counter(), "ndup": 0,
            "mutable_objs": 0, "calls_after_dup": 0, "restarts": 0, "restart_continuations": 0, "fault_runs": 0,
            "alias_fx": 0, "holder_runs": 0, "holder_discards": 0, "holder_reached": 0,
            "holder_embeds": collections.Counter(), "holder_hows": collections.Counter()}


def fold(agg, res, program):
    agg["runs"] += 1
    agg["configs"][res["config"]] += 1
    if res["discard"]:
        agg["discards"] += 1
        return
    for k in ("n_cmp", "not_c15", "steps", "switches", "overlap", "preempt_in_lib", "ndup", "mutable_objs",
              "calls_after_dup", "alias_fx"):
        agg[k] += res[k]
    agg["ops"] += res["nops"]
    agg["harness"].extend(res["harness"][:2])
    agg["fired"].update(res["fired"])
    if res["fired"]:
        agg["fault_runs"] += 1
    agg["shapes"].add(res["shape"])
    if res["nontrivial"]:
        agg["nontrivial_shapes"].add(res["shape"])
    agg["hows"].update(res["hows"])
    agg["dup_kinds"].update(res["dup_kinds"])
    if res["schedule_hash"]:
        agg["schedules"].add(res["schedule_hash"])
    if len(agg["samples"]) < 2 and res["nontrivial"] and res["nops"] <= 8:
        agg["samples"].append({"run": res["run"], "config": res["config"], "program": program})
    for v in res["violations"]:
        agg["violations"].append((v["signature"], v["payload"], res["run"]))


def merge(aggs):
    out = new_agg()
    for a in aggs:
        for k, v in a.items():
            if isinstance(v, set):
                out[k] |= v
            elif isinstance(v, collections.Counter):
                out[k].update(v)
            elif isinstance(v, list):
                out[k].extend(v)
            else:
                out[k] += v
    return out


ASSUMPTIONS = [
    "model: dup is the identity on construction expressions; the reference is the linear rebuild of the expression",
    "general heap: mutable-mode (immutable=False) builders are leaves (they receive calls and dup events, never embedded); "
    "holder mode (c15h): a mutable-mode sub-query IS embedded at one of 17 positions of a parent, the parent duplicated "
    "by deepcopy/pickle, the sub-query of one side changed in place; oracle = the untouched side renders as before",
    "cross-process comparison excludes hash values; in-process comparison includes hash and == panels",
    "pre-emption/injection at LINE or INSTRUCTION boundaries of library frames; copy/pickle internals in C are atomic",
    "seeded sampling, not exhaustive",
]


def evidence(agg, tier, seed, wall):
    rate = agg["runs"] / wall * 3600 if wall > 0 else 0
    cov = {
        "evaluations": agg["runs"],
        "distinct_nontrivial": len(agg["nontrivial_shapes"]),
        "rule": "one evaluation = one simulated run: 3-24 ops mixing builder calls and duplication events "
                "(copy.copy / copy.deepcopy / pickle protocols 0-5) over a shared heap, original and duplicate both "
                "live receivers; sequential, with asynchronous exceptions inside duplication, or under 2-4 scheduled "
                "threads; a subset is also restarted (pickled object restored in a fresh interpreter with another "
                "PYTHONHASHSEED, script continued there). distinct = distinct op-log shapes; non-trivial = the run has "
                "a duplication event and a later builder call on the duplicate or on its original",
        "samples": agg["samples"][:2] or [{"note": "no short sample in this batch"}],
        "distinct_shapes": len(agg["shapes"]),
        "configs": dict(agg["configs"]),
        "duplication_events": agg["ndup"],
        "duplication_mechanisms": dict(agg["hows"]),
        "classes_duplicated": dict(agg["dup_kinds"]),
        "builder_calls_on_a_duplicate_or_its_original_after_the_dup": agg["calls_after_dup"],
        "mutable_mode_objects": agg["mutable_objs"],
        "automatic_aliases_written_into_shared_arguments": agg["alias_fx"],
        "holder_mode_runs_embedded_mutable_subquery_changed_in_place_after_dup": agg["holder_runs"],
        "holder_mode_runs_where_the_call_changed_the_touched_sides_render": agg["holder_reached"],
        "holder_mode_embedding_positions": dict(agg["holder_embeds"]),
        "holder_mode_mechanisms": dict(agg["holder_hows"]),
        "holder_mode_discards": agg["holder_discards"],
        "restarts_pickle_to_other_interpreter": agg["restarts"],
        "ops_continued_on_restored_objects": agg["restart_continuations"],
        "slots_compared_with_rebuild": agg["n_cmp"],
        "runs_per_hour": int(rate),
        "simulated_time_logical_steps": agg["steps"],
        "context_switches": agg["switches"],
        "preemptions_inside_library_frames": agg["preempt_in_lib"],
        "distinct_interleavings_by_schedule_hash": len(agg["schedules"]),
        "faults_fired": dict(agg["fired"]),
        "runs_with_a_fired_fault": agg["fault_runs"],
        "discarded_runs": agg["discards"],
        "mismatches_attributed_to_builder_history_not_C15": agg["not_c15"],
        "components": {"real": ["pypika_tortoise (whole package)", "copy, pickle (standard library)"],
                       "stubbed": [], "harness_doubles": ["actor threads"]},
        "fault_kinds_not_applicable": ["message loss/dup/reorder", "partition", "disk error/torn write", "clock skew"],
    }
    return cov, ASSUMPTIONS, None

"""Deterministic scheduler: real threads running real library code, baton passing (exactly one
runnable thread), pre-emption and asynchronous-exception injection at sys.monitoring (PEP 669)
LINE / INSTRUCTION events of the package's own code objects.  The choice of who runs is never
real: it is drawn from a seeded PRNG (or read back from a recorded decision list on replay)."""
from __future__ import annotations

import sys
import threading

from . import lib
from .engine import exec_op
from .lang import Env, Failed, HarnessError, InjectedError, InjectedFault, Skipped, op_deps

mon = sys.monitoring
M64 = (1 << 64) - 1
BIG_Q = 1 << 30


def _free_tool():
    for t in (3, 4, 2, 5):
        if mon.get_tool(t) is None:
            return t
    raise HarnessError("no free sys.monitoring tool id")


class Pending:
    def __repr__(self):
        return "Pending"


class RandomDecider:
    def __init__(self, rng, mean_q):
        self.rng = rng
        self.mean_q = mean_q
        self.trace = []

    def pick(self, runnable):
        a = runnable[self.rng.randrange(len(runnable))]
        # geometric-ish quantum with the run's mean
        q = 1 + int(self.rng.expovariate(1.0 / self.mean_q)) if self.mean_q > 1 else 1
        self.trace.append([a, q])
        return a, q


class PCTDecider:
    """PCT-style schedule: random actor priorities, the highest-priority runnable actor runs without pre-emption
    except at d randomly placed change points, where the running actor drops to the lowest priority."""

    def __init__(self, rng, nact, d, est_steps):
        self.rng = rng
        order = list(range(nact))
        rng.shuffle(order)
        self.prio = {a: nact - i for i, a in enumerate(order)}
        self.low = 0
        self.points = sorted(rng.randint(1, max(2, est_steps)) for _ in range(d))
        self.granted = 0
        self.last = None
        self.trace = []

    def pick(self, runnable):
        while self.points and self.granted >= self.points[0]:
            self.points.pop(0)
            if self.last is not None:
                self.low -= 1
                self.prio[self.last] = self.low
        a = max(runnable, key=lambda x: (self.prio.get(x, 0), -x))
        q = (self.points[0] - self.granted) if self.points else BIG_Q
        q = max(1, q)
        self.granted += q if q < BIG_Q else 0
        self.last = a
        self.trace.append([a, q])
        return a, q


class ReplayDecider:
    def __init__(self, trace):
        self.trace_in = list(trace)
        self.k = 0
        self.trace = []

    def pick(self, runnable):
        if self.k < len(self.trace_in):
            a, q = self.trace_in[self.k]
            self.k += 1
            if a not in runnable:
                a = runnable[0]
        else:
            a, q = runnable[0], 1 << 30
        self.trace.append([a, q])
        return a, q


class Actor:
    def __init__(self, idx, script):
        self.idx = idx
        self.script = script
        self.sem = threading.Semaphore(0)
        self.finished = False
        self.blocked = False
        self.stalled = False
        self.in_lib = False
        self.quantum = 0
        self.op_steps = 0
        self.cur_op = None
        self.thread = None
        self.tid = None
        self.error = None


class Sim:
    """One simulated execution of a program by several actors over one shared heap."""

    def __init__(self, program, assignment, decider, share_tables=True, gran="LINE", faults=None,
                 stall=None, step_cap=2_000_000, env=None, op_faults=None):
        self.L = lib.get()
        self.program = program
        self.n = len(program)
        self.env = env or Env(share_tables=share_tables)
        start = len(self.env.heap)
        self.env.heap.extend(Pending() for _ in range(self.n - start))
        self.start = start
        self.done = [i < start for i in range(self.n)]
        self.gran = gran
        self.decider = decider
        self.faults = {}  # op index -> (step, kind)
        for f in faults or []:
            self.faults[f["op"]] = (f["step"], f.get("kind", "async_exc"))
        self.stall = stall  # {"actor":k,"op":i,"step":s} park that actor there until the others are done
        self.op_faults = {f["op"]: f for f in (op_faults or [])}  # whole-op faults (sequential configs only)
        self.step_cap = step_cap
        nact = max(assignment.values()) + 1 if assignment else 1
        scripts = [[] for _ in range(nact)]
        for i in range(start, self.n):
            scripts[assignment.get(i, 0)].append(i)
        self.actors = [Actor(k, s) for k, s in enumerate(scripts)]
        self.by_tid = {}
        self.clock = 0
        self.switches = 0
        self.hash = 0
        self.fired = {}
        self.events = []  # (seq, actor, 'inv'|'ret', op)
        self.seq = 0
        self.op_len = {}
        self.done_evt = threading.Event()
        self.error = None
        self.tool = None
        self.active = False
        self.overlap = 0  # ops begun while another actor was mid-op
        self.codes = None

    # ------------------------------------------------------------------ monitoring
    def arm(self):
        self.tool = _free_tool()
        mon.use_tool_id(self.tool, "pikasim")
        ev = mon.events.LINE if self.gran == "LINE" else mon.events.INSTRUCTION
        self.ev = ev
        mon.register_callback(self.tool, ev, self._cb)
        self.codes = self.L.code_objects()
        self.code_ix = {c: i for i, c in enumerate(self.codes)}
        for c in self.codes:
            mon.set_local_events(self.tool, c, ev)
        self.active = True

    def disarm(self):
        self.active = False
        if self.tool is not None:
            for c in self.codes or []:
                mon.set_local_events(self.tool, c, 0)
            mon.register_callback(self.tool, self.ev, None)
            mon.free_tool_id(self.tool)
            self.tool = None

    def _cb(self, code, arg):
        if not self.active:
            return None
        a = self.by_tid.get(threading.get_ident())
        if a is None or not a.in_lib:
            return None
        self.clock += 1
        a.op_steps += 1
        self.hash = ((self.hash * 1000003) ^ ((a.idx << 44) ^ (self.code_ix.get(code, 0) << 22) ^ arg)) & M64
        if self.clock > self.step_cap:
            a.in_lib = False
            raise InjectedFault("step cap exceeded")
        f = self.faults.get(a.cur_op)
        if f is not None and f[0] == a.op_steps:
            del self.faults[a.cur_op]
            self.fired[f[1]] = self.fired.get(f[1], 0) + 1
            self.fired_after_first = True
            if f[1] == "async_err":
                raise InjectedError("injected at step %d of op %d" % (a.op_steps, a.cur_op))
            raise InjectedFault("injected at step %d of op %d" % (a.op_steps, a.cur_op))
        st = self.stall
        if st is not None and st["actor"] == a.idx and st["op"] == a.cur_op and st["step"] == a.op_steps:
            self.stall = None
            a.stalled = True
            self.fired["stall"] = self.fired.get("stall", 0) + 1
            self._handoff(a)
            return None
        a.quantum -= 1
        if a.quantum <= 0:
            self._handoff(a)
        return None

    # ------------------------------------------------------------------ baton passing
    def _runnable(self):
        r = [b.idx for b in self.actors if not b.finished and not b.blocked and not b.stalled]
        if not r:
            # only stalled actors left: resume them
            st = [b for b in self.actors if b.stalled and not b.finished]
            for b in st:
                b.stalled = False
            r = [b.idx for b in st]
        return r

    def _handoff(self, a):
        """Called by the baton holder `a`: choose who runs next; block until we get the baton back."""
        r = self._runnable()
        if not r:
            if all(b.finished for b in self.actors):
                self.done_evt.set()
                return
            if a.finished:
                self.error = "deadlock: no runnable actor"
                self.done_evt.set()
                return
            # a is blocked and nobody else can run: cannot happen (see DESIGN: earliest pending op is enabled)
            self.error = "deadlock: actor %d blocked with nothing runnable" % a.idx
            self.done_evt.set()
            return
        nxt, q = self.decider.pick(r)
        b = self.actors[nxt]
        b.quantum = q
        if b is a:
            return
        self.switches += 1
        if a.in_lib:
            self.preempt_in_lib = getattr(self, "preempt_in_lib", 0) + 1
        b.sem.release()
        if not a.finished:
            a.sem.acquire()

    def _deps_done(self, i):
        return all(self.done[d] for d in op_deps(self.program[i]))

    def _actor_main(self, a):
        a.sem.acquire()
        try:
            for i in a.script:
                while not self._deps_done(i):
                    a.blocked = True
                    self._handoff(a)
                    a.blocked = False
                    if self.error:
                        return
                a.cur_op = i
                a.op_steps = 0
                self.seq += 1
                if any(b.cur_op is not None and b is not a for b in self.actors):
                    self.overlap += 1
                self.events.append((self.seq, a.idx, "inv", i))
                a.in_lib = True
                try:
                    of = self.op_faults.get(i)
                    if of is None:
                        v = exec_op(self.env, self.program[i])
                    else:
                        v = self._exec_with_op_fault(i, of)
                finally:
                    a.in_lib = False
                self.env.heap[i] = v
                self.done[i] = True
                self.op_len[i] = a.op_steps
                a.cur_op = None
                self.seq += 1
                self.events.append((self.seq, a.idx, "ret", i))
                for b in self.actors:
                    b.blocked = False if b.blocked and not b.finished else b.blocked
                a.quantum -= 1
                if a.quantum <= 0:
                    self._handoff(a)
        except BaseException as e:  # noqa: BLE001
            a.error = repr(e)
            self.error = "actor %d died: %r" % (a.idx, e)
        finally:
            a.finished = True
            a.in_lib = False
            a.cur_op = None
            self._handoff(a)

    def _exec_with_op_fault(self, i, of):
        """leaf_exc: a user-defined leaf term raises on its k-th get_sql during this op's library call;
        recursion: the interpreter's recursion limit is lowered for this op's library call only."""
        v = exec_op(self.env, self.program[i], op_fault=of)
        k = getattr(self.env, "last_op_fault", None)
        if k:
            self.fired[k] = self.fired.get(k, 0) + 1
        return v

    def run(self, wall_timeout=60.0):
        threads = []
        for a in self.actors:
            t = threading.Thread(target=self._actor_main, args=(a,), daemon=True, name="actor%d" % a.idx)
            a.thread = t
            threads.append(t)
        self.arm()
        try:
            for a, t in zip(self.actors, threads):
                t.start()
                self.by_tid[t.ident] = a
            r = self._runnable()
            nxt, q = self.decider.pick(r)
            self.actors[nxt].quantum = q
            self.actors[nxt].sem.release()
            if not self.done_evt.wait(wall_timeout):
                self.error = "wall timeout (hung run)"
            for t in threads:
                t.join(0.5 if self.error else 5.0)
        finally:
            self.disarm()
        if self.error:
            raise HarnessError(self.error)
        for i in range(self.start, self.n):
            if isinstance(self.env.heap[i], Pending):
                raise HarnessError("op %d never ran" % i)
        return self.env


def measure(program, share_tables=True, gran="LINE"):
    """Fault-free sequential dry run under monitoring: steps per op (to place faults inside ops)."""
    dec = ReplayDecider([])
    sim = Sim(program, {i: 0 for i in range(len(program))}, dec, share_tables=share_tables, gran=gran)
    sim.run()
    return sim.op_len, sim


def coalesce(trace):
    out = []
    for a, q in trace:
        if out and out[-1][0] == a:
            out[-1][1] = min(BIG_Q, out[-1][1] + q)
        else:
            out.append([a, q])
    return out


def preemptions(trace):
    """Decisions that take the baton away from an actor before it blocks or finishes."""
    return sum(1 for a, q in trace if q < BIG_Q)


def minimise_trace(fails, trace, budget=400):
    """Greedy schedule minimisation while the same violation still reproduces: (1) shortest failing prefix of the
    decision list (after it, actors run to completion in index order), (2) delete single decisions from the back,
    (3) turn pre-emptive quanta into 'run until you block or finish', (4) shortest prefix again."""
    cur = coalesce(trace)
    if not fails(cur):
        return trace, False
    trials = [0]

    def shortest_prefix(cur):
        lo, hi = 0, len(cur)
        while lo < hi and trials[0] < budget:
            mid = (lo + hi) // 2
            trials[0] += 1
            if fails(cur[:mid]):
                hi = mid
            else:
                lo = mid + 1
        return cur[:hi] if fails(cur[:hi]) else cur

    cur = shortest_prefix(cur)
    i = len(cur) - 1
    while i >= 0 and trials[0] < budget:
        cand = coalesce(cur[:i] + cur[i + 1:])
        trials[0] += 1
        if fails(cand):
            cur = cand
            i = min(i, len(cur)) - 1
        else:
            i -= 1
    i = 0
    while i < len(cur) and trials[0] < budget:
        a, q = cur[i]
        if q < BIG_Q:
            cand = coalesce(cur[:i] + [[a, BIG_Q]] + cur[i + 1:])
            trials[0] += 1
            if fails(cand):
                cur = cand
                continue
        i += 1
    cur = shortest_prefix(cur)
    return cur, True

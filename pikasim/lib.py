"""Load the real library from the repository working tree (never a copy, never a stub)."""
from __future__ import annotations

import os
import sys

sys.dont_write_bytecode = True

REPO = os.path.realpath(os.environ.get("PIKASIM_REPO", "/repo"))
GUARD = "PYPIKA_TORTOISE_VERIF"

_L = None


class Lib:
    """Namespace of every library name the program language may construct or call."""

    def __init__(self) -> None:
        if REPO in sys.path:
            sys.path.remove(REPO)
        sys.path.insert(0, REPO)
        for k in [k for k in sys.modules if k == "pypika_tortoise" or k.startswith("pypika_tortoise.")]:
            del sys.modules[k]
        import pypika_tortoise as P
        from pypika_tortoise import analytics, context, dialects, enums, exceptions, functions, queries, terms, utils
        from pypika_tortoise import pseudocolumns

        here = os.path.realpath(P.__file__)
        if not here.startswith(REPO + os.sep):
            raise RuntimeError(f"pypika_tortoise imported from {here}, expected under {REPO}")
        self.pkg_dir = os.path.dirname(here)
        self.P = P
        self.analytics = analytics
        self.context = context
        self.dialects = dialects
        self.enums = enums
        self.exceptions = exceptions
        self.functions = functions
        self.queries = queries
        self.terms = terms
        self.utils = utils
        self.pseudocolumns = pseudocolumns

        self.QUERY_CLASSES = {
            "Query": queries.Query,
            "MySQLQuery": dialects.MySQLQuery,
            "PostgreSQLQuery": dialects.PostgreSQLQuery,
            "SQLLiteQuery": dialects.SQLLiteQuery,
            "MSSQLQuery": dialects.MSSQLQuery,
            "OracleQuery": dialects.OracleQuery,
        }
        self.CTX = {k: v.SQL_CONTEXT for k, v in self.QUERY_CLASSES.items()}
        self.CTX_NAMES = list(self.CTX)

        # registry of constructible classes / callables, by name
        reg = {}
        for mod in (terms, queries, functions, dialects):
            for n, c in vars(mod).items():
                if isinstance(c, type) and c.__module__.startswith("pypika_tortoise") and not n.startswith("__"):
                    reg.setdefault(n, c)
        for n, c in vars(analytics).items():
            if isinstance(c, type) and c.__module__.startswith("pypika_tortoise"):
                reg["an." + n] = c
        for n, c in vars(functions).items():
            if isinstance(c, type) and c.__module__.startswith("pypika_tortoise"):
                reg["fn." + n] = c
        reg["Preceding"] = analytics.Preceding
        reg["Following"] = analytics.Following
        self.REG = reg
        self.ENUMS = {
            n: c
            for n, c in vars(enums).items()
            if isinstance(c, type) and issubclass(c, enums.Enum) and c is not enums.Enum
        }
        self.CONSTS = {
            "CURRENT_ROW": analytics.CURRENT_ROW,
            "NULL": P.NULL,
            "SYSTEM_TIME": P.SYSTEM_TIME,
        }
        for n in ("BOOLEAN", "INTEGER", "FLOAT", "NUMERIC", "SIGNED", "UNSIGNED", "DATE", "TIME", "TIMESTAMP",
                  "CHAR", "VARCHAR", "LONG_VARCHAR", "BINARY", "VARBINARY"):
            self.CONSTS["SqlTypes." + n] = getattr(enums.SqlTypes, n)
        for n in ("ColumnValue", "ObjectID", "ObjectValue", "RowID", "RowNum", "SysDate"):
            self.CONSTS["pseudo." + n] = getattr(pseudocolumns, n)

        # fixed panel of probe objects for == / != observations; built eagerly so that no library code
        # runs lazily inside a simulated operation (that would make the first run of a process differ)
        T = queries.Table
        self.PANEL = [
            ("Ta", T("a")), ("Ta_a1", T("a", alias="a1")), ("Tb", T("b")), ("Ts.a", T("a", schema="s")),
            ("Qa", queries.Query.from_(T("a")).select("x")),
            ("Qa_sq", queries.Query.from_(T("a")).select("x").as_("sq0")),
            ("AQ", queries.AliasedQuery("cte1")),
            ("S", queries.Schema("s")),
            ("None", None),
        ]

    # ---- reflection -------------------------------------------------------------------
    def pinned_census(self) -> dict:
        """Builder-method census recorded from the baseline tree (selftest/census.json).  A method listed there
        is still driven as a builder even if a later change removes its decorator, so such a change cannot make
        the method escape the workload."""
        if getattr(self, "_pinned", None) is None:
            import json
            path = os.path.join(os.path.dirname(os.path.dirname(os.path.abspath(__file__))), "selftest", "census.json")
            try:
                self._pinned = json.load(open(path, encoding="utf-8"))
            except OSError:
                self._pinned = {}
        return self._pinned

    def builder_methods(self, cls) -> list[str]:
        """Names of builder methods visible on cls: reflective (decorated now) plus pinned (decorated at baseline)."""
        key = ("bm", cls)
        cache = self.__dict__.setdefault("_bm_cache", {})
        if key in cache:
            return cache[key]
        out = self._reflective_builder_methods(cls)
        pinned = self.pinned_census()
        for k in cls.__mro__:
            for n in pinned.get(k.__module__ + "." + k.__qualname__, []):
                if n not in out and callable(getattr(cls, n, None)):
                    out.append(n)
        cache[key] = out
        return out

    def lost_decorators(self) -> list[str]:
        """Pinned builder methods that exist but are not builder-decorated any more."""
        now = self.census()
        out = []
        for c, ms in self.pinned_census().items():
            for m in ms:
                if m not in now.get(c, []):
                    out.append(c.rsplit(".", 1)[-1] + "." + m)
        return sorted(out)

    def _reflective_builder_methods(self, cls) -> list[str]:
        out = []
        seen = set()
        for k in cls.__mro__:
            for n, v in vars(k).items():
                if n in seen:
                    continue
                if getattr(v, "__qualname__", "") == "builder.<locals>._copy":
                    # only if this is the attribute actually resolved on cls
                    if getattr(cls, n, None) is v:
                        out.append(n)
                    seen.add(n)
                else:
                    seen.add(n)
        return out

    def census(self) -> dict[str, list[str]]:
        """{qualified class: [builder methods defined in that class]} over the whole package."""
        import importlib
        import pkgutil

        res: dict[str, list[str]] = {}
        mods = [self.P]
        for m in pkgutil.walk_packages(self.P.__path__, "pypika_tortoise."):
            mods.append(importlib.import_module(m.name))
        for m in mods:
            for n, c in sorted(vars(m).items()):
                if isinstance(c, type) and c.__module__.startswith("pypika_tortoise"):
                    key = c.__module__ + "." + c.__qualname__
                    if key in res:
                        continue
                    ms = [k for k, v in vars(c).items()
                          if getattr(v, "__qualname__", "") == "builder.<locals>._copy"]
                    if ms:
                        res[key] = ms
        return res

    def code_objects(self):
        """Every code object whose file lives in the package (for sys.monitoring)."""
        import gc
        import types

        if getattr(self, "_codes", None) is not None:
            return self._codes
        seen = {}

        def walk(co):
            if co in seen:
                return
            fn = co.co_filename
            if not os.path.realpath(fn).startswith(self.pkg_dir + os.sep):
                return
            seen[co] = True
            for c in co.co_consts:
                if isinstance(c, types.CodeType):
                    walk(c)

        for o in gc.get_objects():
            if isinstance(o, types.FunctionType):
                walk(o.__code__)
            elif isinstance(o, types.CodeType):
                walk(o)
        self._codes = sorted(seen, key=lambda c: (c.co_filename, c.co_firstlineno, c.co_qualname))
        return self._codes


def state(v) -> dict:
    """Plain attribute state of a library object for the harness's own bookkeeping, without going through
    __getattr__ (Table/Schema/Not answer every name) and whether the class keeps a __dict__ or uses __slots__."""
    try:
        d = object.__getattribute__(v, "__dict__")
    except AttributeError:
        d = None
    if isinstance(d, dict):
        return d
    out = {}
    for k in type(v).__mro__:
        slots = k.__dict__.get("__slots__", ())
        if isinstance(slots, str):
            slots = (slots,)
        for n in slots:
            try:
                out[n] = object.__getattribute__(v, n)
            except AttributeError:
                pass
    return out


def get() -> Lib:
    global _L
    if _L is None:
        _L = Lib()
    return _L

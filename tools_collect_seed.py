#!/venv/bin/python
"""Verify a sub-agent's seeded change (patch applies to /repo HEAD, test suite green with it, demo fails with it
and passes without it) and store it as /verif/seeded/<id>/ {patch.diff, demo.py, notes.md, meta.json}."""
import json, os, shutil, subprocess, sys, tempfile

def sh(cmd, **kw):
    return subprocess.run(cmd, shell=True, capture_output=True, text=True, **kw)

def main(wt, sid, prop, needs):
    seed = os.path.join(wt, "_seed")
    tmp = tempfile.mkdtemp(prefix="seedchk_")
    try:
        for d in ("pypika_tortoise", "tests"):
            shutil.copytree(os.path.join("/repo", d), os.path.join(tmp, d))
        for f in ("conftest.py", "pyproject.toml"):
            shutil.copy(os.path.join("/repo", f), tmp)
        r0 = sh(f"/venv/bin/python {seed}/demo.py {tmp}")
        pristine_ok = r0.returncode == 0 and "PASS" in r0.stdout
        ap = sh(f"patch -p1 -s -i {seed}/patch.diff", cwd=tmp)
        applies = ap.returncode == 0
        t = sh("/venv/bin/python -m pytest -q -p no:cacheprovider 2>&1 | tail -1", cwd=tmp, env={**os.environ, "PYTHONPATH": tmp})
        green = "867 passed" in t.stdout and "failed" not in t.stdout
        r1 = sh(f"/venv/bin/python {seed}/demo.py {tmp}")
        demo_fails = r1.returncode != 0 and "FAIL" in r1.stdout
        print(f"{sid}: applies={applies} tests={t.stdout.strip()} demo pristine PASS={pristine_ok} demo changed FAIL={demo_fails}")
        ok = applies and green and pristine_ok and demo_fails
        if ok:
            out = os.path.join("/verif/seeded", sid)
            os.makedirs(out, exist_ok=True)
            for f in ("patch.diff", "demo.py", "notes.md"):
                shutil.copy(os.path.join(seed, f), out)
            meta = {"id": sid, "property": prop, "check_with": [prop], "needs_to_manifest": needs,
                    "origin": "independent sub-agent given only the property text and a scratch worktree",
                    "verified": {"patch_applies_to_repo_head": applies, "repo_test_suite_with_change": t.stdout.strip(),
                                 "demo_on_pristine": "PASS (exit 0)", "demo_with_change": "FAIL (exit %d)" % r1.returncode,
                                 "commands": ["patch -p1 -i patch.diff (scratch copy of /repo HEAD)",
                                              "/venv/bin/python -m pytest -q -p no:cacheprovider",
                                              "/venv/bin/python demo.py <scratch copy>"]}}
            json.dump(meta, open(os.path.join(out, "meta.json"), "w"), indent=1)
        return 0 if ok else 1
    finally:
        shutil.rmtree(tmp, ignore_errors=True)

if __name__ == "__main__":
    sys.exit(main(*sys.argv[1:5]))

#!/venv/bin/python
"""Reach measurement: which lines of the package do the simulated runs of each check execute?
usage: PYTHONHASHSEED=0 /venv/bin/python tools_coverage.py [runs-per-check]   (writes selftest/reach_lines.json)"""
import json, os, sys, linecache
sys.path.insert(0, os.path.dirname(os.path.abspath(__file__)))
import coverage
from pikasim import lib, c01, c02, c13, c15, runner

def main(k):
    pkg = os.path.join(lib.REPO, "pypika_tortoise")
    out = {}
    allhit = {}
    stmts = {}
    for name, mod in (("C01", c01), ("C02", c02), ("C13", c13), ("C15", c15)):
        cov = coverage.Coverage(include=[pkg + "/*"], data_file=None)
        cov.start()
        lib.get()
        for run in range(k):
            try:
                runner.guarded(mod.one_run, 120, 0, run)
            except Exception as e:  # noqa: BLE001
                print("run", run, "raised", repr(e)[:100])
        cov.stop()
        tot = miss = 0
        for f in sorted(cov.get_data().measured_files()):
            _, st, _, missing, _ = cov.analysis2(f)
            rel = os.path.relpath(f, pkg)
            stmts[rel] = set(st)
            allhit.setdefault(rel, set()).update(set(st) - set(missing))
            tot += len(st); miss += len(missing)
        out[name] = {"statements": tot, "executed": tot - miss}
        print(name, out[name], flush=True)
    never = {}
    for rel, st in stmts.items():
        m = sorted(st - allhit[rel])
        if m:
            never[rel] = [[n, linecache.getline(os.path.join(pkg, rel), n).rstrip()] for n in m]
    out["never_executed_by_any_check"] = never
    out["runs_per_check"] = k
    json.dump(out, open(os.path.join(os.path.dirname(os.path.abspath(__file__)), "selftest", "reach_lines.json"), "w"), indent=1)
    for rel, ls in never.items():
        print("==", rel, len(ls))
        for n, t in ls:
            print(f"   {n}: {t}")

if __name__ == "__main__":
    main(int(sys.argv[1]) if len(sys.argv) > 1 else 400)

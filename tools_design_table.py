#!/venv/bin/python
"""Regenerates the sensitivity table of DESIGN.md section 10 from selftest/sensitivity_report.json and seeded/*/meta.json."""
import glob, json, os, re
V = os.path.dirname(os.path.abspath(__file__))
rep = json.load(open(os.path.join(V, "selftest", "sensitivity_report.json")))
DESC = {}
for line in open(os.path.join(V, "known_findings.txt")):
    m = re.match(r"fixed:\s+property=(C\d+)\s+([0-9a-f]{7})\S*\s+sig=\S+\s+(.*)", line)
    if m:
        DESC["revert-" + m.group(2)] = "reverse of fix " + m.group(2) + ": " + m.group(3).split(";")[0][:110]
seeded = {}
for d in glob.glob(os.path.join(V, "seeded", "*", "meta.json")):
    mj = json.load(open(d))
    seeded["seeded/" + mj["id"]] = mj
rows = []
for r in rep["results"]:
    what = DESC.get(r["id"])
    if what is None and r["id"] in seeded:
        what = "sub-agent change; needs: " + seeded[r["id"]]["needs_to_manifest"][:150]
    if what is None:
        what = re.sub(r"^m\d+-C\d+-", "", r["id"]).replace("-", " ")
    sig = ", ".join(r.get("signatures", [])[:2])
    more = len(r.get("signatures", [])) - 2
    if more > 0:
        sig += f" (+{more})"
    status = "caught" if r.get("detected") else ("MISSED" if r.get("status") == "ok" else r.get("status"))
    rp = {True: "yes", False: "NO", None: "-"}[r.get("replay_reproduces")]
    rows.append(f"| `{r['id']}` | {what} | {r['prop']} | {status} | {rp} | {sig} |")
caught = sum(1 for r in rep["results"] if r.get("detected"))
table = (f"Last run: {len(rep['results'])} patches against /repo at {rep.get('repo_head')}, {caught} caught "
         f"(quick tier, VERIF_SEED=0).\n\n| patch | what it does | check | result | replay in a fresh process reproduces | signatures (first two) |\n|---|---|---|---|---|---|\n"
         + "\n".join(rows) + "\n")
p = os.path.join(V, "DESIGN.md")
s = open(p).read()
if "SENSITIVITY_TABLE_PLACEHOLDER" in s:
    s = s.replace("SENSITIVITY_TABLE_PLACEHOLDER", "<!-- SENS-BEGIN -->\n" + table + "<!-- SENS-END -->")
else:
    s = re.sub(r"<!-- SENS-BEGIN -->.*?<!-- SENS-END -->", lambda m: "<!-- SENS-BEGIN -->\n" + table + "<!-- SENS-END -->", s, flags=re.S)
open(p, "w").write(s)
print("table written:", len(rows), "rows,", caught, "caught")

#!/venv/bin/python
"""For every repaired defect (selftest/mutants/revert-<sha>.patch) run the owning check on a scratch copy with the
repair reverted and keep up to three replay files (distinct signatures) under regressions/<prop>/.  The checks replay
these first on every invocation: a repaired defect that returns is reported at once, not only when sampling finds it."""
import glob, json, os, re, shutil, subprocess, sys, tempfile
V = os.path.dirname(os.path.abspath(__file__))
sys.path.insert(0, V)
from pikasim import sensitivity  # noqa: E402

def main():
    rp = sensitivity.revert_props()
    for patch in sorted(glob.glob(os.path.join(V, "selftest", "mutants", "revert-*.patch"))):
        sha = os.path.basename(patch)[len("revert-"):-6]
        prop = rp.get(sha[:7])
        if not prop:
            print("no property for", sha)
            continue
        tmp = tempfile.mkdtemp(prefix="pikareg_")
        try:
            shutil.copytree("/repo/pypika_tortoise", os.path.join(tmp, "pypika_tortoise"))
            subprocess.run(["patch", "-p1", "-s", "-i", patch], cwd=tmp, check=True)
            env = dict(os.environ, PIKASIM_REPO=tmp, PIKASIM_REPLAY_DIR=os.path.join(tmp, "replays"),
                       PIKASIM_EVIDENCE_DIR=os.path.join(tmp, "ev"), VERIF_STOP_AFTER="12")
            subprocess.run([os.path.join(V, "check"), prop, "--tier", "quick"], cwd=V, env=env, capture_output=True, text=True)
            out = os.path.join(V, "regressions", prop)
            os.makedirs(out, exist_ok=True)
            kept = 0
            for f in sorted(glob.glob(os.path.join(tmp, "replays", "*.json"))):
                r = subprocess.run([os.path.join(V, "check"), "replay", f], cwd=V, env=env, capture_output=True, text=True)
                if r.returncode != 1:
                    continue  # keep only files that reproduce in a fresh process
                payload = json.load(open(f))
                payload["regression_of"] = sha
                json.dump(payload, open(os.path.join(out, f"revert-{sha}-{kept}.json"), "w"), indent=1, sort_keys=True)
                kept += 1
                if kept >= 3:
                    break
            print(sha, prop, "kept", kept)
        finally:
            shutil.rmtree(tmp, ignore_errors=True)

if __name__ == "__main__":
    main()

#!/venv/bin/python
"""Re-run the sensitivity self-test for some mutants only and merge the results into selftest/sensitivity_report.json
usage: tools_sens_update.py <substring of id> ..."""
import json, os, subprocess, sys
V = os.path.dirname(os.path.abspath(__file__))
sys.path.insert(0, V)
from pikasim import sensitivity, lib  # noqa: E402

def main(keys):
    rep = json.load(open(sensitivity.REPORT))
    res = {(r["id"], r["prop"]): r for r in rep["results"]}
    for it in sensitivity.mutants():
        if not any(k in it["id"] for k in keys):
            continue
        r = sensitivity.run_one(it)
        res[(r["id"], r["prop"])] = r
        print(r["id"], r["prop"], "DETECTED" if r.get("detected") else r.get("status"), r.get("signatures", [])[:2], flush=True)
    ids = {(i["id"], i["prop"]) for i in sensitivity.mutants()}
    rep["results"] = [r for k, r in sorted(res.items()) if k in ids]
    rep["repo_head"] = subprocess.run(["git", "-C", lib.REPO, "rev-parse", "--short", "HEAD"], capture_output=True, text=True).stdout.strip()
    json.dump(rep, open(sensitivity.REPORT, "w"), indent=1)
    missed = [r["id"] + "@" + r["prop"] for r in rep["results"] if r.get("status") == "ok" and not r.get("detected")]
    print(len(rep["results"]), "pairs;", "missed:", missed)

if __name__ == "__main__":
    main(sys.argv[1:])

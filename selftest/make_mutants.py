#!/venv/bin/python
"""Builds the designed sensitivity mutants as patch files (selftest/mutants/mNN-*.patch) from
(file, old, new) edits against /repo's current tree, and verifies that each keeps the repo's own
test suite green.  Run by hand when the repo changes; the patches are committed."""
import os
import shutil
import subprocess
import sys
import tempfile

REPO = "/repo"
OUT = os.path.join(os.path.dirname(os.path.abspath(__file__)), "mutants")

Q = "pypika_tortoise/queries.py"
T = "pypika_tortoise/terms.py"
U = "pypika_tortoise/utils.py"
PG = "pypika_tortoise/dialects/postgresql.py"
MS = "pypika_tortoise/dialects/mssql.py"

M = {}


def drop_copy(attr):
    return [(Q, f"        newone.{attr} = copy(self.{attr})\n", "")]


for i, a in enumerate(["_selects", "_select_star_tables", "_joins", "_updates", "_values", "_orderbys", "_with",
                       "_on_conflict_fields", "_from", "_groupbys", "_columns", "_on_conflict_do_updates",
                       "_force_indexes"], start=1):
    M[f"m{i:02d}-C01-nocopy{a}"] = ("C01", drop_copy(a))
M["m14-C01-nocopy_returns_pg"] = ("C01", [(PG, "        newone._returns = copy(self._returns)\n", "")])
M["m15-C01-builder-parks-copy-on-receiver"] = ("C01", [(U, '''        self_copy = copy.copy(self) if getattr(self, "immutable", True) else self
        result = func(self_copy, *args, **kwargs)
''', '''        self_copy = copy.copy(self) if getattr(self, "immutable", True) else self
        try:
            self.__dict__["_pending"] = self_copy
            result = func(self.__dict__["_pending"], *args, **kwargs)
        finally:
            self.__dict__.pop("_pending", None)
            self_copy.__dict__.pop("_pending", None)
''')])
M["m17-C01-tuple-replace_table-inplace"] = ("C01", [(T, '''        self.values = [value.replace_table(current_table, new_table) for value in self.values]
''', '''        for i, value in enumerate(self.values):
            self.values[i] = value.replace_table(current_table, new_table)
''')])
M["m18-C01-else_-mutates-receiver"] = ("C01", [(T, '''    @builder
    def else_(self, term: Any) -> "Self":
        self._else = self.wrap_constant(term)
        return self
''', '''    def else_(self, term: Any) -> "Self":
        self._else = self.wrap_constant(term)
        return self
''')])

M["m28-C01-autoalias-also-drops-subquery-orderby"] = ("C01", [(Q, '''            selectable.alias = "sq%d" % sub_query_count
            self._subquery_count = sub_query_count + 1
''', '''            selectable.alias = "sq%d" % sub_query_count
            if isinstance(selectable, QueryBuilder) and selectable._limit is None:
                selectable._orderbys = []  # ORDER BY without LIMIT in a derived table is a no-op
            self._subquery_count = sub_query_count + 1
''')])
M["m29-C01-table-for_-strips-alias-of-its-argument"] = ("C01", [(Q, '''        self._for = temporal_criterion
''', '''        if getattr(temporal_criterion, "alias", None):
            temporal_criterion.alias = None  # a FOR clause cannot carry an alias
        self._for = temporal_criterion
''')])
M["m51-C13-columns-after-rows-restarts-the-column-list"] = ("C13", [(Q, '''        if terms and isinstance(terms[0], (list, tuple)):
            terms = terms[0]  # type:ignore[assignment]

        for term in terms:
            if isinstance(term, str):
                term = Field(term, table=self._insert_table)
            self._columns.append(term)
''', '''        if terms and isinstance(terms[0], (list, tuple)):
            terms = terms[0]  # type:ignore[assignment]

        if self._values and self._columns:
            self._columns = []  # a column list given after the rows replaces the earlier one

        for term in terms:
            if isinstance(term, str):
                term = Field(term, table=self._insert_table)
            self._columns.append(term)
''')])
M["m20-C02-append-render-pop"] = ("C02", [(PG, '''            from_clauses = list(self._from)
            if self._joins:
                from_clauses.append(
                    self._update_table.as_(self._update_table.get_table_name() + "_")
                )

            if from_clauses:
                querystring += self._from_sql(ctx, from_clauses)
''', '''            if self._joins:
                self._from.append(self._update_table.as_(self._update_table.get_table_name() + "_"))
            try:
                if self._from:
                    querystring += self._from_sql(ctx)
            finally:
                if self._joins:
                    self._from.pop()
''')])
M["m27-C02-append-render-pop-no-finally"] = ("C02", [(PG, '''            from_clauses = list(self._from)
            if self._joins:
                from_clauses.append(
                    self._update_table.as_(self._update_table.get_table_name() + "_")
                )

            if from_clauses:
                querystring += self._from_sql(ctx, from_clauses)
''', '''            if self._joins:
                self._from.append(self._update_table.as_(self._update_table.get_table_name() + "_"))
            if self._from:
                querystring += self._from_sql(ctx)
            if self._joins:
                self._from.pop()
''')])
M["m21-C02-memoised-sql"] = ("C02", [(Q, '''    def get_sql(self, ctx: SqlContext | None = None) -> str:
        if not ctx:
            ctx = self.QUERY_CLS.SQL_CONTEXT

        if not (self._selects or self._insert_table or self._delete_from or self._update_table):
            return ""
''', '''    def get_sql(self, ctx: SqlContext | None = None) -> str:
        if not ctx:
            ctx = self.QUERY_CLS.SQL_CONTEXT
        memo = self.__dict__.get("_memo")
        if memo is not None and memo[0] == ctx and ctx.parameterizer is None:
            return memo[1]
        sql = self._get_sql_uncached(ctx)
        if ctx.parameterizer is None:
            self.__dict__["_memo"] = (ctx, sql)
        return sql

    def _get_sql_uncached(self, ctx: SqlContext) -> str:
        if not (self._selects or self._insert_table or self._delete_from or self._update_table):
            return ""
''')])
M["m22-C02-mssql-offset-stored-on-self"] = ("C02", [(MS, '''        return order_by + " OFFSET {offset} ROWS".format(
            offset=self._offset.get_sql(ctx) if self._offset is not None else 0
        )
''', '''        sql = order_by + " OFFSET {offset} ROWS".format(
            offset=self._offset.get_sql(ctx) if self._offset is not None else 0
        )
        if self._offset is None:
            self._offset = ValueWrapper(0)  # remember the implied offset
        return sql
''')])
M["m23-C02-shared-default-parameterizer"] = ("C02", [(Q, '''        if not ctx.parameterizer:
            ctx = ctx.copy(parameterizer=Parameterizer())
''', '''        if not ctx.parameterizer:
            ctx = ctx.copy(parameterizer=_DEFAULT_PARAMETERIZER)
'''), (Q, '''class Joiner:
''', '''_DEFAULT_PARAMETERIZER = Parameterizer()


class Joiner:
''')])
M["m24-C02-from-dedup-through-set"] = ("C02", [(Q, '''        if clauses is None:
            clauses = self._from
''', '''        if clauses is None:
            clauses = self._from
        if len(clauses) > 2:
            clauses = list(set(clauses))
''')])
M["m25-C02-hash-caches-on-term"] = ("C02", [(T, '''    def __hash__(self) -> int:
        ctx = DEFAULT_SQL_CONTEXT.copy(with_alias=True)
        return hash(self.get_sql(ctx))
''', '''    def __hash__(self) -> int:
        ctx = DEFAULT_SQL_CONTEXT.copy(with_alias=True)
        if "alias" in self.__dict__ and self.__dict__["alias"] is None:
            self.__dict__["alias"] = None if len(self.__dict__) % 7 else ""
        return hash(self.get_sql(ctx))
''')])
M["m26-C02-render-sorts-selects-by-hash"] = ("C02", [(Q, '''        select_ctx = ctx.copy(subquery=True, with_alias=True)
        return "SELECT {distinct}{select}".format(
            distinct=self._distinct_sql(ctx),
            select=",".join(term.get_sql(select_ctx) for term in self._selects),
        )
''', '''        select_ctx = ctx.copy(subquery=True, with_alias=True)
        selects = self._selects
        if len(selects) > 3:
            seen = {s.get_sql(select_ctx): s for s in selects}
            if len(seen) < len(selects):
                selects = list({s.get_sql(select_ctx) for s in selects})
                return "SELECT {distinct}{select}".format(distinct=self._distinct_sql(ctx), select=",".join(selects))
        return "SELECT {distinct}{select}".format(
            distinct=self._distinct_sql(ctx),
            select=",".join(term.get_sql(select_ctx) for term in selects),
        )
''')])

M["m30-C13-limit-clears-offset"] = ("C13", [(Q, '''    @builder
    def limit(self, limit: int) -> "Self":  # type:ignore[return]
        self._limit = cast(ValueWrapper, self.wrap_constant(limit))

    @builder
    def offset(self, offset: int) -> "Self":  # type:ignore[return]
        self._offset = cast(ValueWrapper, self.wrap_constant(offset))

    @builder
    def union(self, other: Self) -> _SetOperation:''', '''    @builder
    def limit(self, limit: int) -> "Self":  # type:ignore[return]
        self._limit = cast(ValueWrapper, self.wrap_constant(limit))
        if self._orderbys:
            self._offset = None

    @builder
    def offset(self, offset: int) -> "Self":  # type:ignore[return]
        self._offset = cast(ValueWrapper, self.wrap_constant(offset))

    @builder
    def union(self, other: Self) -> _SetOperation:''')])
M["m31-C13-having-before-groupby-dropped"] = ("C13", [(Q, '''    def having(self, criterion: Criterion) -> "Self":  # type:ignore[return]
        if self._havings:
''', '''    def having(self, criterion: Criterion) -> "Self":  # type:ignore[return]
        if not self._groupbys and not self._selects:
            return  # type:ignore[return-value]
        if self._havings:
''')])
M["m32-C13-for-update-before-pagination"] = ("C13", [(Q, '''        querystring = self._apply_pagination(querystring, ctx)

        if self._for_update:
            querystring += self._for_update_sql(ctx)
''', '''        if self._for_update and self._offset is not None:
            querystring += self._for_update_sql(ctx)

        querystring = self._apply_pagination(querystring, ctx)

        if self._for_update and self._offset is None:
            querystring += self._for_update_sql(ctx)
''')])
M["m33-C13-distinct-dedupes-at-call-time"] = ("C13", [(Q, '''    def distinct(self) -> "Self":  # type:ignore[return]
        self._distinct = True
''', '''    def distinct(self) -> "Self":  # type:ignore[return]
        self._distinct = True
        uniq: list = []
        for s in self._selects:
            if not any(s is u for u in uniq) and str(s) not in [str(u) for u in uniq]:
                uniq.append(s)
        self._selects = uniq
''')])
M["m34-C13-update-without-set-renders-fragment"] = ("C13", [(Q, '''        if self._update_table and not self._updates:
            return ""

        has_joins = bool(self._joins)''', '''        if self._update_table and not self._updates and not self._wheres:
            return ""

        has_joins = bool(self._joins)''')])
M["m35-C13-orderby-with-groupby-pending"] = ("C13", [(Q, '''            self._orderbys.append((field, kwargs.get("order")))

    @builder
    def join(''', '''            if self._with_totals and not self._groupbys:
                self._groupbys.append(field)
            else:
                self._orderbys.append((field, kwargs.get("order")))

    @builder
    def join(''')])
M["m36-C13-second-set-replaces-same-field"] = ("C13", [(Q, '''        value = self.wrap_constant(value, wrapper_cls=self._wrapper_cls)
        self._updates.append((field, value))
''', '''        value = self.wrap_constant(value, wrapper_cls=self._wrapper_cls)
        if self._wheres is not None and len(self._updates) >= 2:
            self._updates.insert(0, (field, value))
        else:
            self._updates.append((field, value))
''')])

M["m45-C15-mutable-builder-copy-shares-lists"] = ("C15", [(Q, '''        newone = type(self).__new__(type(self))
        newone.__dict__.update(self.__dict__)
        newone._from = copy(self._from)
''', '''        newone = type(self).__new__(type(self))
        newone.__dict__.update(self.__dict__)
        if not self.immutable:
            return newone  # in-place builders never go through the builder decorator's copy
        newone._from = copy(self._from)
''')])
M["m46-C15-schema-getattr-unguarded"] = ("C15", [(Q, '''    @ignore_copy
    def __getattr__(self, item: str) -> "Table":
        return Table(item, schema=self)
''', '''    def __getattr__(self, item: str) -> "Table":
        return Table(item, schema=self)
''')])
M["m47-C15-table-reduce-drops-temporal-clause"] = ("C15", [(Q, '''    def get_table_name(self) -> str:
        return self.alias or self._table_name

    def get_sql(self, ctx: SqlContext) -> str:
        # FIXME escape
        table_sql = format_quotes(self._table_name, ctx.quote_char)
''', '''    def get_table_name(self) -> str:
        return self.alias or self._table_name

    def __reduce__(self):  # type:ignore[no-untyped-def]
        # compact pickles: a table is its constructor arguments
        return (Table, (self._table_name, self._schema, self.alias, self._query_cls))

    def get_sql(self, ctx: SqlContext) -> str:
        # FIXME escape
        table_sql = format_quotes(self._table_name, ctx.quote_char)
''')])
M["m40-C15-ignore_copy-misses-deepcopy"] = ("C15", [(U, '''            "__copy__",
            "__deepcopy__",
''', '''            "__copy__",
''')])
M["m41-C15-not-getattr-unguarded"] = ("C15", [(T, '''    @ignore_copy
    def __getattr__(self, name: str) -> Any:
        """
        Delegate method calls to the class wrapped by Not().''', '''    def __getattr__(self, name: str) -> Any:
        """
        Delegate method calls to the class wrapped by Not().''')])
M["m42-C15-table-getstate-omits-schema"] = ("C15", [(Q, '''    def get_table_name(self) -> str:
        return self.alias or self._table_name

    def get_sql(self, ctx: SqlContext) -> str:
        # FIXME escape
        table_sql = format_quotes(self._table_name, ctx.quote_char)
''', '''    def get_table_name(self) -> str:
        return self.alias or self._table_name

    def __getstate__(self) -> dict:
        state = dict(self.__dict__)
        if state.get("_for") is None and state.get("alias") is not None:
            state["_schema"] = None
        return state

    def get_sql(self, ctx: SqlContext) -> str:
        # FIXME escape
        table_sql = format_quotes(self._table_name, ctx.quote_char)
''')])
M["m19-C01-setop-copy-forgets-orderbys"] = ("C01", [(Q, '''        newone._set_operation = copy(self._set_operation)
        newone._orderbys = copy(self._orderbys)
        return newone
''', '''        newone._set_operation = copy(self._set_operation)
        return newone
''')])
M["m44-C15-case-deepcopy-shares-else"] = ("C15", [(T, '''    def nodes_(self) -> Iterator[NodeT]:
        yield self  # type:ignore[misc]

        for criterion, term in self._cases:
''', '''    def __reduce_ex__(self, protocol):  # type:ignore[no-untyped-def]
        state = dict(self.__dict__)
        if protocol >= 4 and len(state.get("_cases", ())) > 1:
            state["_cases"] = state["_cases"][:-1] + [state["_cases"][-1]][::-1]
            state["_else"] = None
        return (Case.__new__, (type(self),), state)

    def nodes_(self) -> Iterator[NodeT]:
        yield self  # type:ignore[misc]

        for criterion, term in self._cases:
''')])


def main():
    os.makedirs(OUT, exist_ok=True)
    only = sys.argv[1:]
    ok = True
    for name, (prop, edits) in sorted(M.items()):
        if only and not any(o in name for o in only):
            continue
        tmp = tempfile.mkdtemp(prefix="pikamut_")
        try:
            for d in ("pypika_tortoise", "tests"):
                shutil.copytree(os.path.join(REPO, d), os.path.join(tmp, d))
            for f in ("conftest.py", "pyproject.toml"):
                shutil.copy(os.path.join(REPO, f), tmp)
            subprocess.run("git init -q . && git add -A && git commit -qm base", shell=True, cwd=tmp, check=True,
                           stdout=subprocess.DEVNULL)
            for path, old, new in edits:
                p = os.path.join(tmp, path)
                s = open(p).read()
                if s.count(old) != 1:
                    print(f"{name}: edit does not apply uniquely in {path} (count={s.count(old)})")
                    ok = False
                    break
                open(p, "w").write(s.replace(old, new))
            else:
                r = subprocess.run(["/venv/bin/python", "-m", "pytest", "-q", "-x", "-p", "no:cacheprovider"], cwd=tmp,
                                   capture_output=True, text=True, env={**os.environ, "PYTHONPATH": tmp})
                tail = r.stdout.strip().splitlines()[-1] if r.stdout.strip() else r.stderr[-200:]
                green = r.returncode == 0
                diff = subprocess.run(["git", "diff", "--", "pypika_tortoise"], cwd=tmp, capture_output=True, text=True).stdout
                if green:
                    open(os.path.join(OUT, name + ".patch"), "w").write(diff)
                print(f"{name}: tests {'GREEN' if green else 'RED -> not kept'} ({tail})")
                if not green:
                    ok = False
        finally:
            shutil.rmtree(tmp, ignore_errors=True)
    return 0 if ok else 1


if __name__ == "__main__":
    sys.exit(main())
